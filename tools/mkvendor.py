#!/usr/bin/env python3
"""Build a cargo *directory source* from the .crate files already in the local
registry caches (both cache directories: the repository's pinned dependencies
live under one registry hash, the verification crates under another, and no
single cargo invocation sees both).  Nothing is fetched.

usage: mkvendor.py <out-dir>
"""
import glob, hashlib, json, os, sys, tarfile

out = sys.argv[1]
os.makedirs(out, exist_ok=True)
n = 0
for crate in sorted(glob.glob(os.path.expanduser("~/.cargo/registry/cache/*/*.crate"))):
    base = os.path.basename(crate)[:-6]
    dst = os.path.join(out, base)
    if os.path.isfile(os.path.join(dst, ".cargo-checksum.json")):
        continue
    with open(crate, "rb") as f:
        h = hashlib.sha256(f.read()).hexdigest()
    with tarfile.open(crate, "r:gz") as t:
        t.extractall(out)
    with open(os.path.join(dst, ".cargo-checksum.json"), "w") as f:
        json.dump({"files": {}, "package": h}, f)
    n += 1
print("vendored", n, "crates into", out)
