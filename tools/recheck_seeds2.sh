#!/bin/bash
# Like recheck_seeds.sh, but never touches /repo or /verif/harness: a frozen copy of the harness (EVAL_SRC, default
# /verif/harness as it is when the script starts) is built against a scratch worktree of /repo HEAD (/tmp/evalrepo)
# that carries one stored seeded patch at a time.  usage: tools/recheck_seeds2.sh <seed-name>[:ID1,ID2]...
cd "$(dirname "$0")/.."
V=$PWD
if [ ! -d /tmp/evalrepo ]; then git -C /repo worktree add -q --detach /tmp/evalrepo HEAD; fi
git -C /tmp/evalrepo checkout -q -- . ; git -C /tmp/evalrepo checkout -q --detach $(git -C /repo rev-parse HEAD)
mkdir -p /tmp/evalh /tmp/evalv
rsync -a --delete --exclude target --exclude fuzz ${EVAL_SRC:-$V/harness}/ /tmp/evalh/
sed -i 's#path = "/repo"#path = "/tmp/evalrepo"#' /tmp/evalh/Cargo.toml
rsync -a --delete $V/known $V/regress $V/known_findings.json /tmp/evalv/
for spec in "$@"; do
  name="${spec%%:*}"; extra=""; [ "$spec" != "$name" ] && extra="${spec#*:}"
  prop=$(python3 -c "import json;print(json.load(open('seeded/$name/meta.json'))['breaks_property'])")
  if ! git -C /tmp/evalrepo apply "$V/seeded/$name/patch.diff" 2>/dev/null; then echo "$name: patch does not apply"; continue; fi
  ( cd /tmp/evalh && cargo build --profile checked --bin vcheck 2>/tmp/evalh/build.log ) || { echo "$name: build failed"; git -C /tmp/evalrepo checkout -q -- .; continue; }
  unset VERIF_PLAIN_BIN
  case " $prop $extra " in *C17*|*C19*) ( cd /tmp/evalh && cargo build --profile plain --bin vcheck 2>>/tmp/evalh/build.log ) && export VERIF_PLAIN_BIN=/tmp/evalh/target/plain/vcheck ;; esac
  for p in $prop ${extra//,/ }; do
    out=$(VERIF_DIR=/tmp/evalv /tmp/evalh/target/checked/vcheck $p quick 2>&1); rc=$?
    echo "$name $p rc=$rc $(echo "$out" | grep -E '^leg|^stage|^regression|^abort' | head -1 | cut -c1-160)"
  done
  git -C /tmp/evalrepo checkout -q -- .
done
