#!/bin/bash
# Like recheck_seeds.sh, but never touches /repo or /verif/harness: a frozen copy of the harness (EVAL_SRC, default
# /verif/harness as it is when the script starts) is built against a scratch worktree of /repo HEAD (/tmp/evalrepo${EVAL_SLOT:-})
# that carries one stored seeded patch at a time.  usage: tools/recheck_seeds2.sh <seed-name>[:ID1,ID2]...
cd "$(dirname "$0")/.."
V=$PWD
if [ ! -d /tmp/evalrepo${EVAL_SLOT:-} ]; then git -C /repo worktree add -q --detach /tmp/evalrepo${EVAL_SLOT:-} HEAD; fi
git -C /tmp/evalrepo${EVAL_SLOT:-} checkout -q -- . ; git -C /tmp/evalrepo${EVAL_SLOT:-} checkout -q --detach $(git -C /repo rev-parse HEAD)
mkdir -p /tmp/evalh${EVAL_SLOT:-} /tmp/evalv${EVAL_SLOT:-}
rsync -a --delete --exclude target --exclude fuzz ${EVAL_SRC:-$V/harness}/ /tmp/evalh${EVAL_SLOT:-}/
sed -i "s#path = \"/repo\"#path = \"/tmp/evalrepo${EVAL_SLOT:-}\"#" /tmp/evalh${EVAL_SLOT:-}/Cargo.toml
rsync -a --delete $V/known $V/regress $V/known_findings.json /tmp/evalv${EVAL_SLOT:-}/
for spec in "$@"; do
  name="${spec%%:*}"; extra=""; [ "$spec" != "$name" ] && extra="${spec#*:}"
  prop=$(python3 -c "import json;print(json.load(open('seeded/$name/meta.json'))['breaks_property'])")
  if ! git -C /tmp/evalrepo${EVAL_SLOT:-} apply "$V/seeded/$name/patch.diff" 2>/dev/null; then echo "$name: patch does not apply"; continue; fi
  ( cd /tmp/evalh${EVAL_SLOT:-} && cargo build --profile checked --bin vcheck 2>/tmp/evalh${EVAL_SLOT:-}/build.log ) || { echo "$name: build failed"; git -C /tmp/evalrepo${EVAL_SLOT:-} checkout -q -- .; continue; }
  unset VERIF_PLAIN_BIN
  case " $prop $extra " in *C17*|*C19*) ( cd /tmp/evalh${EVAL_SLOT:-} && cargo build --profile plain --bin vcheck 2>>/tmp/evalh${EVAL_SLOT:-}/build.log ) && export VERIF_PLAIN_BIN=/tmp/evalh${EVAL_SLOT:-}/target/plain/vcheck ;; esac
  for p in $prop ${extra//,/ }; do
    out=$(VERIF_DIR=/tmp/evalv${EVAL_SLOT:-} /tmp/evalh${EVAL_SLOT:-}/target/checked/vcheck $p quick 2>&1); rc=$?
    echo "$name $p rc=$rc $(echo "$out" | grep -E '^leg|^stage|^regression|^abort|^crash|^INCONCLUSIVE' | head -1 | cut -c1-160)"
  done
  git -C /tmp/evalrepo${EVAL_SLOT:-} checkout -q -- .
done
