#!/usr/bin/env python3
"""Systematic sensitivity probe: one-token mutants of /repo/src, evaluated against the existing test suite and then
against the quick checks of the properties anchored in the mutated file.

Never touches /repo or /verif/harness: a scratch worktree of /repo HEAD (/tmp/mutrepo<slot>) carries one mutant at a
time; a copy of the harness (/tmp/muth<slot>) is built against it.  Output: one JSON line per mutant.

usage: tools/mutate.py --slot N --seed S --count K [--files a.rs,b.rs] [--ops rel,arith,...] --out FILE
       tools/mutate.py --list [--files ...]          (print the number of candidate mutants per file / operator)
A mutant that compiles, passes the 79 tests and passes every relevant quick check is a *survivor*: either an equivalent
mutant or a blind spot; survivors are read by hand (DESIGN 6).
"""
import argparse, json, os, random, re, subprocess, sys, time, hashlib

REPO = '/repo'
V = '/verif'
FILE_CHECKS = {
    'rope.rs': ['C16', 'C19', 'C07'],
    'decoder.rs': ['C12', 'C17', 'C08'],
    'encoder.rs': ['C12', 'C03', 'C11'],
    'source.rs': ['C15', 'C14', 'C20', 'C13'],
    'raw_source.rs': ['C07', 'C14', 'C20', 'C01'],
    'original_source.rs': ['C04', 'C02', 'C01', 'C14', 'C20'],
    'concat_source.rs': ['C06', 'C03', 'C02', 'C13', 'C07', 'C11', 'C14', 'C20'],
    'replace_source.rs': ['C05', 'C02', 'C06', 'C01', 'C11', 'C03', 'C14', 'C20', 'C18'],
    'cached_source.rs': ['C10', 'C14', 'C18', 'C13', 'C01'],
    'source_map_source.rs': ['C08', 'C09', 'C14', 'C20', 'C07'],
    'helpers.rs': ['C08', 'C09', 'C03', 'C02', 'C01', 'C04', 'C06', 'C11', 'C17', 'C10'],
    'with_indices.rs': ['C19', 'C09', 'C08', 'C01'],
    'linear_map.rs': ['C06', 'C11', 'C09', 'C03'],
}

OPS = {
    'rel': [(r'(?<=[\w\)\]]) < (?=[\w\(\*&])', ' <= '), (r'(?<=[\w\)\]]) <= (?=[\w\(\*&])', ' < '),
            (r'(?<=[\w\)\]]) > (?=[\w\(\*&])', ' >= '), (r'(?<=[\w\)\]]) >= (?=[\w\(\*&])', ' > '),
            (r' == ', ' != '), (r' != ', ' == ')],
    'arith': [(r'(?<=[\w\)\]]) \+ (?=[\w\(\*&])', ' - '), (r'(?<=[\w\)\]]) - (?=[\w\(\*&])', ' + '),
              (r' \+= ', ' -= '), (r' -= ', ' += ')],
    'logic': [(r' && ', ' || '), (r' \|\| ', ' && ')],
    'const': [(r'(?<![\w\.])0(?![\w\.])', '1'), (r'(?<![\w\.])1(?![\w\.])', '0'), (r'(?<![\w\.])1(?![\w\.])', '2'),
              (r'\btrue\b', 'false'), (r'\bfalse\b', 'true')],
    'neg': [(r'(?<=[\s\(])!(?=[a-zA-Z_\(])', '')],
    'del': [],   # statement deletion, handled separately
    'sat': [(r'\.saturating_sub\(', '.wrapping_sub('), (r'\.min\(', '.max('), (r'\.max\(', '.min('),
            (r'\.is_some\(\)', '.is_none()'), (r'\.is_none\(\)', '.is_some()'), (r'\.is_empty\(\)', '.len() == 1')],
}
ASSIGN = re.compile(r'^\s*[a-z_][\w\.]*(\[[^\]]*\])? (\+|-)?= [^;]*;\s*$')


def candidates(files, ops):
    out = []
    for f in sorted(files):
        path = os.path.join(REPO, 'src', f)
        lines = open(path).read().split('\n')
        skip_next = False
        depth = 0
        for i, line in enumerate(lines):
            s = line.strip()
            if s.startswith('#[cfg(test)]'):
                break
            if 'rspack_sources_verif' in line:
                skip_next = True
                depth = 0
                continue
            if skip_next:
                # the guarded item (a statement, a block, a loop): skip until its brackets are balanced again
                depth += sum(line.count(c) for c in '({[') - sum(line.count(c) for c in ')}]')
                if depth <= 0 and (s.endswith(';') or s.endswith('}') or s.endswith(',') or s.endswith('{') and depth < 0):
                    skip_next = False
                continue
            if s.startswith('//') or s.startswith('#[') or s.startswith('use ') or 'verif::' in line or 'debug_assert' in line:
                continue
            code = line.split('//')[0] if '"' not in line else line
            for op in ops:
                if op == 'del':
                    if ASSIGN.match(line) and not s.startswith('let '):
                        out.append({'file': f, 'line': i + 1, 'op': 'del', 'col': 0, 'old': line, 'new': re.match(r'^\s*', line).group(0) + '// deleted'})
                    continue
                for pat, rep in OPS[op]:
                    for m in re.finditer(pat, code):
                        new = line[:m.start()] + rep + line[m.end():]
                        out.append({'file': f, 'line': i + 1, 'op': op, 'col': m.start(), 'old': line, 'new': new})
    return out


def sh(cmd, cwd=None, timeout=None, env=None):
    try:
        p = subprocess.run(cmd, shell=True, cwd=cwd, timeout=timeout, env=env, stdout=subprocess.PIPE, stderr=subprocess.STDOUT, text=True, errors='replace')
        return p.returncode, p.stdout
    except subprocess.TimeoutExpired as e:
        subprocess.run("pkill -f 'mut(repo|h)%s/' || true" % os.environ.get('MUT_SLOT', ''), shell=True)
        return 124, (e.stdout or '') if isinstance(e.stdout, str) else ''


def main():
    ap = argparse.ArgumentParser()
    ap.add_argument('--slot', default='0')
    ap.add_argument('--seed', type=int, default=1)
    ap.add_argument('--count', type=int, default=20)
    ap.add_argument('--files', default=','.join(FILE_CHECKS))
    ap.add_argument('--ops', default=','.join(OPS))
    ap.add_argument('--out', default='/tmp/mutants.jsonl')
    ap.add_argument('--list', action='store_true')
    ap.add_argument('--max-checks', type=int, default=4)
    ap.add_argument('--recheck', default='', help='second pass: take the survivors recorded in this jsonl file and run the checks AFTER the first --max-checks ones')
    a = ap.parse_args()
    files = a.files.split(',')
    ops = a.ops.split(',')
    cands = candidates(files, ops)
    if a.list:
        from collections import Counter
        c = Counter((m['file'], m['op']) for m in cands)
        for k in sorted(c):
            print(k, c[k])
        print('total', len(cands))
        return
    rnd = random.Random(a.seed)
    rnd.shuffle(cands)
    first = 0
    if a.recheck:
        cands = []
        for l in open(a.recheck):
            r = json.loads(l)
            if r.get('verdict') == 'survived':
                cands.append({k: r[k] for k in ('file', 'line', 'op', 'col', 'old', 'new')})
        first = a.max_checks
        a.max_checks = 99
    slot = a.slot
    os.environ['MUT_SLOT'] = slot
    mr, mh, mv = f'/tmp/mutrepo{slot}', f'/tmp/muth{slot}', f'/tmp/mutv{slot}'
    head = subprocess.check_output(['git', '-C', REPO, 'rev-parse', 'HEAD'], text=True).strip()
    if not os.path.isdir(mr):
        sh(f'git -C {REPO} worktree add -q --detach {mr} HEAD')
    sh(f'git -C {mr} checkout -q -- . ; git -C {mr} checkout -q --detach {head}')
    os.makedirs(mh, exist_ok=True)
    os.makedirs(mv, exist_ok=True)
    sh(f'rsync -a --delete --exclude target --exclude fuzz {V}/harness/ {mh}/')
    sh(f"sed -i 's#path = \"/repo\"#path = \"{mr}\"#' {mh}/Cargo.toml")
    sh(f'rsync -a --delete {V}/known {V}/regress {V}/known_findings.json {mv}/')
    env = dict(os.environ, CARGO_NET_OFFLINE='true', VERIF_DIR=mv)
    done = set()
    if os.path.exists(a.out):
        for l in open(a.out):
            try:
                done.add(json.loads(l)['key'])
            except Exception:
                pass
    n = 0
    for m in cands:
        if n >= a.count:
            break
        key = hashlib.sha1(f"{m['file']}:{m['line']}:{m['col']}:{m['new']}".encode()).hexdigest()[:12]
        if key in done:
            continue
        n += 1
        t0 = time.time()
        path = os.path.join(mr, 'src', m['file'])
        src = open(path).read().split('\n')
        if src[m['line'] - 1] != m['old']:
            continue
        src[m['line'] - 1] = m['new']
        open(path, 'w').write('\n'.join(src))
        rec = dict(m, key=key)
        rc, out = (0, '') if a.recheck else sh('cargo test --offline --no-fail-fast 2>&1', cwd=mr, timeout=420, env=env)
        if 'error: could not compile' in out or 'error[E' in out:
            rec['verdict'] = 'uncompilable'
        elif rc != 0:
            rec['verdict'] = 'killed_by_tests' + ('(timeout)' if rc == 124 else '')
        else:
            rc, out = sh('cargo build --profile checked --bin vcheck 2>&1', cwd=mh, timeout=900, env=env)
            if rc != 0:
                rec['verdict'] = 'harness_build_failed'
                rec['detail'] = out[-400:]
            else:
                rec['verdict'] = 'survived'
                rec['checks'] = []
                for p in FILE_CHECKS[m['file']][first:a.max_checks]:
                    e2 = dict(env)
                    if p in ('C17', 'C19'):
                        rc, out = sh('cargo build --profile plain --bin vcheck 2>&1', cwd=mh, timeout=900, env=env)
                        e2['VERIF_PLAIN_BIN'] = f'{mh}/target/plain/vcheck'
                    rc, out = sh(f'{mh}/target/checked/vcheck {p} quick 2>&1', timeout=900, env=e2)
                    why = [l for l in out.split('\n') if re.match(r'^(leg |stage |regression input|abort|crash|INCONCLUSIVE)', l)]
                    rec['checks'].append({'p': p, 'rc': rc, 'why': (why[0][:300] if why else '')})
                    if rc == 1:
                        rec['verdict'] = 'killed_by_' + p
                        break
                    if rc not in (0, 1):
                        rec['verdict'] = 'inconclusive_' + p
        rec['secs'] = round(time.time() - t0, 1)
        sh(f'git -C {mr} checkout -q -- .')
        with open(a.out, 'a') as f:
            f.write(json.dumps(rec) + '\n')
        print(rec['verdict'], m['file'], m['line'], m['op'], repr(m['old'].strip()[:70]), '->', repr(m['new'].strip()[:70]), rec['secs'], flush=True)


if __name__ == '__main__':
    main()
