#!/bin/bash
# usage: tools/sweep.sh <tier> <seed>...   run every check with each seed, print one line per (check, seed)
cd "$(dirname "$0")/.."
tier="$1"; shift
for seed in "$@"; do
  for p in C01 C02 C03 C04 C05 C06 C07 C08 C09 C10 C11 C12 C13 C14 C15 C16 C17 C18 C19 C20; do
    out=$(VERIF_SEED=$seed ./check $p $tier 2>&1); rc=$?
    echo "seed=$seed $p rc=$rc $(echo "$out" | grep -E "^C[0-9]+ (quick|thorough):" | cut -c1-110)"
    if [ $rc -ne 0 ]; then echo "$out" | grep -E "VIOLATION|INCONCLUSIVE|^leg|^stage|BUILD" | cut -c1-600; fi
  done
done
