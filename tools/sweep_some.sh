#!/bin/bash
# usage: tools/sweep_some.sh <tier> <seed> <ID>...   like sweep.sh for the given checks only
cd "$(dirname "$0")/.."
tier="$1"; seed="$2"; shift 2
for p in "$@"; do
  out=$(VERIF_SEED=$seed ./check $p $tier 2>&1); rc=$?
  echo "seed=$seed $p rc=$rc $(echo "$out" | grep -E "^C[0-9]+ (quick|thorough):" | cut -c1-110)"
  if [ $rc -ne 0 ]; then echo "$out" | grep -E "VIOLATION|INCONCLUSIVE|^leg|^stage|BUILD" | cut -c1-600; fi
done
