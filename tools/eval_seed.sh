#!/bin/bash
# usage: tools/eval_seed.sh <agent-worktree> <seed-name> <property-id> [more property ids to run...]
# 1. confirms the seeded change in the agent's worktree: existing tests pass with it, the demo fails with it
#    and passes without it;  2. applies the patch to /repo, runs the quick check of each given property,
#    undoes the patch;  3. stores everything under /verif/seeded/<seed-name>/.
set -u
WT="$1"; NAME="$2"; shift 2
PROPS="$@"
V=/verif
OUT=$V/seeded/$NAME
mkdir -p "$OUT"
cp "$WT/seeded/patch.diff" "$OUT/patch.diff"
cp "$WT/seeded/seeded_demo.rs" "$OUT/seeded_demo.rs" 2>/dev/null || cp "$WT/tests/seeded_demo.rs" "$OUT/seeded_demo.rs"
cp "$WT/seeded/NOTES.md" "$OUT/NOTES.md" 2>/dev/null
cd "$WT" || exit 2
# make sure the worktree is in the "patched" state described by patch.diff
git checkout -q -- src 2>/dev/null
git apply "$OUT/patch.diff" || { echo "patch does not apply to the worktree"; exit 2; }
cp "$OUT/seeded_demo.rs" tests/seeded_demo.rs
with=$(cargo test --offline --no-fail-fast 2>&1 | grep -E "^test result" )
with_suite_ok=$(echo "$with" | grep -c "0 failed")
with_demo=$(cargo test --offline --test seeded_demo 2>&1 | grep -E "^test result" | head -1)
git checkout -q -- src
without_demo=$(cargo test --offline --test seeded_demo 2>&1 | grep -E "^test result" | head -1)
git apply "$OUT/patch.diff"
echo "with patch:    $with" | tr '\n' ' '; echo
echo "demo with:     $with_demo"
echo "demo without:  $without_demo"
# run the checks against the patched /repo
cd /repo && git apply "$OUT/patch.diff" || { echo "patch does not apply to /repo"; exit 2; }
RES=""
for p in $PROPS; do
  cd $V && o=$(./check $p quick 2>&1); rc=$?
  line=$(echo "$o" | grep -E "^VIOLATION|^INCONCLUSIVE|BUILD-FAILED" | head -1)
  why=$(echo "$o" | grep -E "^leg |^stage |^regression input|^abort" | head -1 | cut -c1-400)
  echo "check $p rc=$rc $line"; [ -n "$why" ] && echo "   $why"
  RES="$RES{\"property\":\"$p\",\"exit\":$rc,\"detail\":$(python3 -c 'import json,sys; print(json.dumps(sys.argv[1]))' "$why")},"
done
git -C /repo checkout -- . 
python3 - "$OUT" "$NAME" "$with" "$with_demo" "$without_demo" "[${RES%,}]" <<'PY'
import json,sys
out,name,w,wd,wod,res=sys.argv[1:7]
meta={"seed":name,"existing_tests_with_patch":w.splitlines(),"demo_with_patch":wd,"demo_without_patch":wod,"checks_run_with_patch_applied_to_repo":json.loads(res)}
try:
    old=json.load(open(out+'/meta.json'))
    old.update(meta); meta=old
except Exception: pass
json.dump(meta,open(out+'/meta.json','w'),indent=1)
PY
git -C /repo status --short | head -3
