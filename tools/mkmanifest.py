#!/usr/bin/env python3
"""Regenerate /verif/MANIFEST.json from the table below (keeps it schema-valid)."""
import json, subprocess, sys, os

V = os.path.dirname(os.path.dirname(os.path.abspath(__file__)))

# id -> (technique, level text, level note)
CHECKS = {
 "C01": ("proptest generated source trees; oracle: independent text-splice model + reassembly of cold / warm / after-map() chunk streams, source() re-asked on the streamed object after every round; one tree in eight a tower of 4-8 stacked wrappers; an observed-construction round (source()/size() after every mutating call, then stream vs source() of that object); a second object asked map() first and then streamed twice; chunks read after the call returned from memory the checking binary overwrites on free; one tree in 33 wide (9-40 children, 255-300 table entries, 17-80 replacements)",
         "Generated-input search (multi-byte trees, wild sorted maps, replacement pools incl. beyond-end) against a reference model of source(); every chunk of every stream must carry text and the chunks must reassemble. Exploration: shows the property on every generated tree and history, not on all.",
         "Trusts the harness's splice model (spec::splice_text) and its tree builder; known finding W2 (char vs byte columns) is tolerated only in its exact shape."),
 "C02": ("proptest generated ASCII trees; oracle: true (line, column) of every byte from a scan of the reference text, in all four (columns, final_source) modes, on fresh objects, on one object cold / warm / after map(), and on an object observed while under construction; thorough: libFuzzer+ASan target tree_c02 (bytes -> tree -> same oracle)",
         "Every reported chunk position and the returned end information are compared with positions computed from the reference text; final-source mode is reached through the verif::map_options hook.",
         "Trusts observe::positions and the reference text model."),
 "C03": ("proptest generated ASCII trees; differential: normal-mode chunk stream vs map() decoded by the harness's own VLQ decoder, per byte / per line, on fresh objects and on one object in every order of stream / map / other column setting; thorough: libFuzzer+ASan target tree_c03",
         "Two code paths of the crate (normal streaming and final-source streaming + encoder) are compared on every byte of every generated tree, each on a fresh object, and for trees with a CachedSource on one object in every call order.",
         "Trusts model::vlq::decode; K1 (SourceMapSource::map pass-through) is a listed known finding."),
 "C04": ("proptest generated trees over Raw/Original/Concat/Replace/Cached; oracle: independent byte-provenance model and tokenizer, on a fresh object and on one object asked with both column settings in both orders; thorough: libFuzzer+ASan target tree_c04",
         "map() is checked against ground truth computed without looking at the crate's chunking (where each output byte was copied from).",
         "Trusts model::prov (tokenizer written from the documented regular expression)."),
 "C05": ("proptest generated call histories (mutators interleaved with 13 observers, fork / switch over live clones; legs of <=12, 22-48, 190-280, monotone and >65536 ops; inner trees incl. binary leaves with invalid UTF-8); oracle: reference replacement model + unobserved twin; thorough: libFuzzer+ASan target hist_c05",
         "Stateful/model-based: after every observer the answer equals the stable-sort splice model; final state equals an unobserved twin (==, hash, text). A second leg uses >20 colliding replacements so that an unstable sort is observable.",
         "Trusts spec::splice_text."),
 "C06": ("proptest generated composites over SourceMapSource-rich children; differential child-alone vs child-in-ConcatSource, and an attribution model of the ReplaceSource splice; one case in 22 with 9-40 children or 33-80 replacements (ties in the sort key) at the root",
         "Per-byte comparison of (file, content, line, column, name) between each child alone and inside the composite; ReplaceSource against a model written from the statement and fed with the inner source's observed chunk stream.",
         "Trusts model::replace_attr and the harness's map resolver."),
 "C07": ("proptest generated trees incl. invalid UTF-8; oracle: reference text/bytes model; fault injection: writer failing after k bytes for every k; wide trees (ConcatSource of 9-40 children incl. composites) among the generated ones",
         "All five views compared pairwise and with the model; the failing-writer fault point is enumerated exhaustively per generated tree.",
         "Trusts spec::model_bytes."),
 "C08": ("proptest generated (text, consistent map) pairs, the source built through both option structs and named gen.js or like a file of the map; oracle: lookup on the generated segment list; differential SourceMapSource vs user-defined source via stream_chunks_default; 1-3 other enclosing sources (replacement-less ReplaceSource, CachedSource, ConcatSources) between the SourceMapSource and the enclosing map()",
         "Attribution of every byte through three routes (normal stream, final-source stream, map() of an enclosing ConcatSource) equals lookup(M); declared tables equal M's.",
         "Trusts model::lookup."),
 "C09": ("proptest generated (outer map, inner map) pairs; oracle: reference composition over the generated segment lists; a third leg with inner sourcesContent larger than 64 KiB (filler prefix + identity) and outer names that are the text at their target",
         "Per-byte comparison of map() with a composition written from the statement (inner chunk located by the reference splitter).",
         "Trusts model::lookup::ref_chunks and the composition oracle in props/c09.rs; one detail (name compared with empty string on a missing line) is taken from the code."),
 "C10": ("proptest generated call histories over a CachedSource and two clones; oracle: never-cached twin built fresh from the same Spec (incl. whether there is a map, for trees without a pass-through SourceMapSource); thorough: libFuzzer+ASan target hist_c10",
         "Stateful: after every call the answer equals the wrapped source's (text, bytes, size, end info, per-byte attribution); repeated map() calls must return the identical value.",
         "Attribution, not chunk lists, is compared (replay legitimately coarsens chunks)."),
 "C11": ("proptest generated ASCII trees; validity predicates over every produced map and chunk stream, on fresh objects and on one object asked twice; thorough: libFuzzer+ASan target tree_c11",
         "Sortedness, range, alphabet and index-table predicates over map() for both column settings and over the announcement protocol in all four streaming modes.",
         "Trusts model::vlq::decode; K1 pass-through is a listed known finding."),
 "C12": ("proptest generated mapping sequences + exhaustive enumeration of all single-field deltas, of short sequences and of strings of common segments + independently spelled strings; oracle: independent base64-VLQ encoder/decoder; thorough: libFuzzer+ASan target codec",
         "Round trip, drop rule, re-encoding, line-only rule and decoder agreement with an independent implementation of the v3 format; all deltas of magnitude < 2^16 (quick) / 2^20 (thorough) of every field are enumerated.",
         "Trusts model::vlq."),
 "C13": ("proptest generated triples of trees; metamorphic relations (regrouping, neutral elements, wrappers), each side on fresh objects and on one object asked repeatedly; thorough: libFuzzer+ASan target triple_c13; a second leg with SourceMapSource leaves whose maps are longer than their text",
         "20 law instances per triple compared on the text views and on per-byte attribution from map() and from the chunk stream.",
         "The 'only empty replacements' law is read together with C06 (the column may be refined)."),
 "C14": ("proptest generated pairs (same Spec or one edit apart) with observer histories on one operand, x optionally observed while under construction, pairs of maps sharing their payload; metamorphic: ==, hash and observers before/after; thorough: libFuzzer+ASan target pair_c14; trees holding a typed ConcatSource twice are built with shared reference-counted children on one side and separately allocated ones on the other; a twin whose raw leaves are built through another constructor spelling (from_static text at an unaligned address vs heap copy) compared by ==, SipHash, a write-boundary-sensitive hasher and every observer; one case in four with a twin built on a freshly started thread",
         "Equality/hash/clone coherence and history independence over every source type, typed and dyn.",
         "For trees containing a CachedSource, maps and streams are compared by attribution (C10's notion) rather than verbatim."),
 "C15": ("proptest generated SourceMap values and harness-written JSON documents; oracle: serde_json as independent parser; writers taking 1 / 7 / 4096 bytes per call; thorough: libFuzzer+ASan target json; format key names and JSON literals as string values; shaped values also with one non-ASCII character",
         "to_json/to_writer output parsed by an independent parser; three parser entry points compared with each other and with the reference reading.",
         "Trusts serde_json."),
 "C16": ("proptest generated rope construction programs + exhaustive enumeration of small programs; oracle: flat String model (incl. byte_slice_unchecked inside its precondition and the iterators through std adaptors); thorough: libFuzzer+ASan target rope_prog",
         "Every observer of Rope compared with the String it stands for; all slice ranges of every generated rope; std's UB checks on (checked profile).",
         "Trusts model::rope_prog."),
 "C17": ("proptest generated mappings strings, mutated JSON bytes and wild source trees (every method, typed clones of every composite node) on two build profiles; thorough: libFuzzer+ASan targets decode/json/tree_prog; oracle: totality (no panic, parsers agree on accept/reject); documents framed by the XSSI guard, BOMs, sourceMappingURL comments and data: heads; wide trees (ropes of more than 16 / 32 pieces beneath ReplaceSource / CachedSource layers); leg b also writes well-formed documents whose string fields hold hostile and shaped values",
         "Every public entry point is driven with in-domain but hostile input on the overflow-checked build and again on the release-semantics build; coverage-guided campaigns extend the byte-level legs in the thorough tier.",
         "A watchdog (300 s per case) turns a slow case into exit 2 (inconclusive), never into a violation; only a case whose threads are all asleep without consuming CPU time for 40 watchdog ticks (blocked for good, e.g. a lock taken twice) is reported as a violation of 'never hangs'; known finding W2 is tolerated only in its exact shape and signature."),
 "C18": ("generated (program, schedule) pairs under a harness-owned cooperative scheduler driven through cfg-guarded schedule points; random schedules plus exhaustive enumeration of all schedules with <=2 preemptions per generated program; an unscheduled really-parallel leg; shared trees built cold or stale; oracle: single-threaded twin, deadlock detection, write-once cache hook + identity of handed-out maps; thorough: libFuzzer+ASan target sched_prog; CloneMutate operation (a thread mutates and reads its own typed clone)",
         "The schedule is the generated input: real threads run strictly one at a time and switch only at the library's shared-state accesses, lock acquisitions and callbacks into a user-defined child source. Exhaustive for the bounded-preemption schedules of each explored program, exploration over programs.",
         "Atomicity is assumed below the granularity of the schedule points (inside DashMap, OnceLock, Mutex, Arc); weak-memory reorderings are out of reach (the crate uses SeqCst and locks only)."),
 "C19": ("the generators of C16, C01/C17 and C18 run with guarded precondition assertions before each of the 14 unsafe operations, std's unsafe-precondition checks, on two build profiles; thorough: libFuzzer targets rope_prog / tree_prog under AddressSanitizer; quick tier: the checking binary's allocator overwrites freed memory and moves on realloc, borrowed chunks are read after the call returned and must still be UTF-8 and reassemble; 16 guard bytes behind every heap block, checked when it is freed",
         "Every generated program respected every stated precondition; borrowed chunks, names and contents are kept until the stream call returned (and, for schedules, until all threads finished) and then read.",
         "Absence of undefined behaviour is not established by testing; Miri is outside this technique family and not used."),
 "C20": ("proptest generated one-edit pairs and shared-payload pairs filtered by an observable difference (maps compared as JSON text); cross-process / cross-thread hash comparison; doubled trees hashed with shared vs separately allocated children (address independence); every batch tree re-hashed with its raw leaves respelled (unaligned &'static str / heap copy) under SipHash and a write-boundary-sensitive hasher, raw leaves of 60-260 bytes in every batch",
         "Hash sensitivity to every ingredient at every depth, and reproducibility of the hash in a freshly spawned process.",
         "A single 64-bit collision would be reported as such (second hasher)."),
}

NOT_YET = {
}

props = [json.loads(l) for l in open(os.path.join(V, "properties.jsonl"))]
hooks_commits = subprocess.run(["git", "-C", "/repo", "log", "--format=%h %s"], capture_output=True, text=True).stdout.splitlines()
hook_ids = [l.split()[0] for l in hooks_commits if l.split(" ", 1)[1].startswith("verif hooks")]

checks = []
na = []
for p in props:
    i = p["id"]
    if i in CHECKS:
        tech, text, note = CHECKS[i]
        checks.append({
            "property_id": i,
            "quick_cmd": f"./check {i} quick",
            "thorough_cmd": f"./check {i} thorough",
            "evidence_file": f"/verif/evidence/{i}.json",
            "replay_cmd_template": f"./check {i} --replay {{path}}",
            "engine": "vcheck",
            "level_claimed": {"category": "exploration", "text": text, "design_ref": f"DESIGN.md section 3 / {i}"},
            "level_note": note,
            "technique": tech,
        })
    else:
        na.append({"property_id": i, "reason": NOT_YET.get(i, "check not built yet (work in progress; see DESIGN.md)")})

m = {
    "version": 1,
    "setup_cmd": "python3 tools/mkvendor.py /verif/vendor && cd harness && cargo build --profile checked --bin vcheck",
    "hooks": {
        "guard": "--cfg rspack_sources_verif",
        "enable": "rustflags = [\"--cfg\", \"rspack_sources_verif\"] in /verif/harness/.cargo/config.toml; the harness path-depends on /repo and is rebuilt by every ./check call",
        "baseline_off_cmd": "cd /repo && cargo test --workspace --no-fail-fast --offline",
        "source_commits": hook_ids,
        "add_only": True,
    },
    "engines": [{
        "name": "vcheck",
        "path": "/verif/harness",
        "serves_properties": [c["property_id"] for c in checks],
        "kind_free_text": "proptest-driven property checks (generators, reference models, shrinking, replay files, evidence) in one binary; 14 cargo-fuzz targets under harness/fuzz (byte-level and structure-decoding, the props' check functions as in-target oracles) as thorough stages",
    }],
    "checks": checks,
    "not_applicable": na,
    "notes": "All checks: exit 0 = held on everything explored, exit 1 + VIOLATION line = violation with a shrunk replay file, exit 2 = inconclusive (build failure, too few non-trivial cases). VERIF_SEED selects the PRNG seed. Known findings: /verif/known_findings.json.",
}
json.dump(m, open(os.path.join(V, "MANIFEST.json"), "w"), indent=1)
print("checks:", len(checks), "not_applicable:", [x["property_id"] for x in na])
