#!/bin/bash
# usage: tools/recheck_seeds.sh <seed-name>...   re-apply stored seeded patches to /repo one at a time and run the
# quick check of the property each one breaks (and any extra property ids given as name:ID1,ID2)
cd "$(dirname "$0")/.."
for spec in "$@"; do
  name="${spec%%:*}"; extra=""; [ "$spec" != "$name" ] && extra="${spec#*:}"
  prop=$(python3 -c "import json;print(json.load(open('seeded/$name/meta.json'))['breaks_property'])")
  if ! git -C /repo apply "$PWD/seeded/$name/patch.diff" 2>/dev/null; then echo "$name: patch does not apply"; continue; fi
  for p in $prop ${extra//,/ }; do
    out=$(./check $p quick 2>&1); rc=$?
    echo "$name $p rc=$rc $(echo "$out" | grep -E '^leg|^stage|^regression|^abort' | head -1 | cut -c1-160)"
  done
  git -C /repo checkout -- .
done
