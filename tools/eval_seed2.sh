#!/bin/bash
# Like eval_seed.sh, but never touches /repo: the harness is copied to /tmp/evalh${EVAL_SLOT:-} and built against a scratch
# worktree of /repo (/tmp/evalrepo${EVAL_SLOT:-}) that carries the patch.  Used while a background run is using /repo.
# usage: tools/eval_seed2.sh <agent-worktree> <seed-name> <property-id>...
set -u
WT="$1"; NAME="$2"; shift 2
PROPS="$@"
V=/verif
OUT=$V/seeded/$NAME
mkdir -p "$OUT"
cp "$WT/seeded/patch.diff" "$OUT/patch.diff"
cp "$WT/seeded/seeded_demo.rs" "$OUT/seeded_demo.rs" 2>/dev/null || cp "$WT/tests/seeded_demo.rs" "$OUT/seeded_demo.rs"
cp "$WT/seeded/NOTES.md" "$OUT/NOTES.md" 2>/dev/null
cd "$WT" || exit 2
git checkout -q -- src 2>/dev/null
git apply "$OUT/patch.diff" || { echo "patch does not apply to the worktree"; exit 2; }
cp "$OUT/seeded_demo.rs" tests/seeded_demo.rs
with=$(cargo test --offline --no-fail-fast 2>&1 | grep -E "^test result" )
with_demo=$(timeout 600 cargo test --offline --test seeded_demo 2>&1 | grep -E "^test result|SIGABRT|signal" | head -1)
git checkout -q -- src
without_demo=$(timeout 600 cargo test --offline --test seeded_demo 2>&1 | grep -E "^test result" | head -1)
git apply "$OUT/patch.diff"
echo "with patch:    $with" | tr '\n' ' '; echo
echo "demo with:     $with_demo"
echo "demo without:  $without_demo"
# scratch repo + scratch harness
if [ ! -d /tmp/evalrepo${EVAL_SLOT:-} ]; then git -C /repo worktree add -q --detach /tmp/evalrepo${EVAL_SLOT:-} HEAD; fi
git -C /tmp/evalrepo${EVAL_SLOT:-} checkout -q -- . ; git -C /tmp/evalrepo${EVAL_SLOT:-} checkout -q --detach $(git -C /repo rev-parse HEAD)
git -C /tmp/evalrepo${EVAL_SLOT:-} apply "$OUT/patch.diff" || { echo "patch does not apply to /repo HEAD"; exit 2; }
mkdir -p /tmp/evalh${EVAL_SLOT:-} /tmp/evalv${EVAL_SLOT:-}
rsync -a --delete --exclude target --exclude fuzz ${EVAL_SRC:-$V/harness}/ /tmp/evalh${EVAL_SLOT:-}/
sed -i "s#path = \"/repo\"#path = \"/tmp/evalrepo${EVAL_SLOT:-}\"#" /tmp/evalh${EVAL_SLOT:-}/Cargo.toml
rsync -a --delete $V/known $V/regress $V/known_findings.json /tmp/evalv${EVAL_SLOT:-}/
( cd /tmp/evalh${EVAL_SLOT:-} && cargo build --profile checked --bin vcheck 2>/tmp/evalh${EVAL_SLOT:-}/build.log ) || { echo "scratch harness build failed"; tail -20 /tmp/evalh${EVAL_SLOT:-}/build.log; git -C /tmp/evalrepo${EVAL_SLOT:-} checkout -q -- .; exit 2; }
case " $PROPS " in *" C17 "*|*" C19 "*)
  ( cd /tmp/evalh${EVAL_SLOT:-} && cargo build --profile plain --bin vcheck 2>>/tmp/evalh${EVAL_SLOT:-}/build.log ) && export VERIF_PLAIN_BIN=/tmp/evalh${EVAL_SLOT:-}/target/plain/vcheck ;;
esac
RES=""
for p in $PROPS; do
  o=$(VERIF_DIR=/tmp/evalv${EVAL_SLOT:-} /tmp/evalh${EVAL_SLOT:-}/target/checked/vcheck $p quick 2>&1); rc=$?
  line=$(echo "$o" | grep -E "^VIOLATION|^INCONCLUSIVE" | head -1)
  why=$(echo "$o" | grep -E "^leg |^stage |^regression input|^abort|^crash" | head -1 | cut -c1-400)
  echo "check $p rc=$rc $line"; [ -n "$why" ] && echo "   $why"
  RES="$RES{\"property\":\"$p\",\"exit\":$rc,\"detail\":$(python3 -c 'import json,sys; print(json.dumps(sys.argv[1]))' "$why")},"
done
git -C /tmp/evalrepo${EVAL_SLOT:-} checkout -q -- .
python3 - "$OUT" "$NAME" "$with" "$with_demo" "$without_demo" "[${RES%,}]" <<'PY'
import json,sys
out,name,w,wd,wod,res=sys.argv[1:7]
meta={"seed":name,"existing_tests_with_patch":w.splitlines(),"demo_with_patch":wd,"demo_without_patch":wod,"checks_run_with_patch_applied_to_repo":json.loads(res),
 "how_run":"harness copied to a scratch directory and built against a scratch worktree of /repo HEAD carrying the patch (a background run was using /repo itself); same vcheck sources, same quick tier"}
try:
    old=json.load(open(out+'/meta.json')); old.update(meta); meta=old
except Exception: pass
json.dump(meta,open(out+'/meta.json','w'),indent=1)
PY
