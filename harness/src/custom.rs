//! A user-defined Source built on the public default streaming helper.

use std::borrow::Cow;
use std::hash::Hash;

use rspack_sources::stream_chunks::{stream_chunks_default, GeneratedInfo, OnChunk, OnName, OnSource, StreamChunks};
use rspack_sources::{MapOptions, Rope, Source, SourceMap};

#[derive(Debug, Clone, PartialEq, Eq)]
pub struct CustomSource {
  pub text: String,
  pub map: Option<SourceMap>,
}

impl Source for CustomSource {
  fn source(&self) -> Cow<str> {
    Cow::Borrowed(&self.text)
  }
  fn rope(&self) -> Rope<'_> {
    Rope::from(&self.text)
  }
  fn buffer(&self) -> Cow<[u8]> {
    Cow::Borrowed(self.text.as_bytes())
  }
  fn size(&self) -> usize {
    self.text.len()
  }
  fn map(&self, _options: &MapOptions) -> Option<SourceMap> {
    self.map.clone()
  }
  fn to_writer(&self, writer: &mut dyn std::io::Write) -> std::io::Result<()> {
    writer.write_all(self.text.as_bytes())
  }
}

impl StreamChunks for CustomSource {
  fn stream_chunks<'a>(
    &'a self,
    options: &MapOptions,
    on_chunk: OnChunk<'_, 'a>,
    on_source: OnSource<'_, 'a>,
    on_name: OnName<'_, 'a>,
  ) -> GeneratedInfo {
    // schedule points of a user-defined source: on entry and before every chunk it forwards
    let id = self as *const Self as usize;
    rspack_sources::verif::emit(rspack_sources::verif::Event::Access, "custom.stream.begin", id, false);
    stream_chunks_default(
      self.text.as_str(),
      self.map.as_ref(),
      options,
      &mut |c, m| {
        rspack_sources::verif::emit(rspack_sources::verif::Event::Access, "custom.stream.chunk", id, false);
        on_chunk(c, m)
      },
      on_source,
      on_name,
    )
  }
}

impl Hash for CustomSource {
  fn hash<H: std::hash::Hasher>(&self, state: &mut H) {
    "__CustomSource".hash(state);
    self.text.hash(state);
    self.map.hash(state);
  }
}
