//! A user-defined Source built on the public default streaming helper.

use std::borrow::Cow;
use std::hash::Hash;

use rspack_sources::stream_chunks::{stream_chunks_default, GeneratedInfo, OnChunk, OnName, OnSource, StreamChunks};
use rspack_sources::{MapOptions, Rope, Source, SourceMap};

#[derive(Debug, Clone, PartialEq, Eq)]
pub struct CustomSource {
  pub text: String,
  pub map: Option<SourceMap>,
}

impl Source for CustomSource {
  fn source(&self) -> Cow<str> {
    Cow::Borrowed(&self.text)
  }
  fn rope(&self) -> Rope<'_> {
    Rope::from(&self.text)
  }
  fn buffer(&self) -> Cow<[u8]> {
    Cow::Borrowed(self.text.as_bytes())
  }
  fn size(&self) -> usize {
    self.text.len()
  }
  fn map(&self, _options: &MapOptions) -> Option<SourceMap> {
    self.map.clone()
  }
  fn to_writer(&self, writer: &mut dyn std::io::Write) -> std::io::Result<()> {
    writer.write_all(self.text.as_bytes())
  }
}

impl StreamChunks for CustomSource {
  fn stream_chunks<'a>(
    &'a self,
    options: &MapOptions,
    on_chunk: OnChunk<'_, 'a>,
    on_source: OnSource<'_, 'a>,
    on_name: OnName<'_, 'a>,
  ) -> GeneratedInfo {
    // schedule points of a user-defined source: on entry and before every chunk it forwards
    let id = self as *const Self as usize;
    rspack_sources::verif::emit(rspack_sources::verif::Event::Access, "custom.stream.begin", id, false);
    stream_chunks_default(
      self.text.as_str(),
      self.map.as_ref(),
      options,
      &mut |c, m| {
        rspack_sources::verif::emit(rspack_sources::verif::Event::Access, "custom.stream.chunk", id, false);
        on_chunk(c, m)
      },
      on_source,
      on_name,
    )
  }
}

impl Hash for CustomSource {
  fn hash<H: std::hash::Hasher>(&self, state: &mut H) {
    "__CustomSource".hash(state);
    self.text.hash(state);
    self.map.hash(state);
  }
}

/// A user-defined source that holds a library source *inline* - the wrapper and its field start at the same address - and
/// answers like it except that it has no map.
#[derive(Debug, Clone, PartialEq, Eq, Hash)]
pub struct Inline(pub rspack_sources::OriginalSource);

impl Source for Inline {
  fn source(&self) -> Cow<str> {
    self.0.source()
  }
  fn rope(&self) -> Rope<'_> {
    self.0.rope()
  }
  fn buffer(&self) -> Cow<[u8]> {
    self.0.buffer()
  }
  fn size(&self) -> usize {
    self.0.size()
  }
  fn map(&self, _options: &MapOptions) -> Option<SourceMap> {
    None
  }
  fn to_writer(&self, writer: &mut dyn std::io::Write) -> std::io::Result<()> {
    self.0.to_writer(writer)
  }
}

impl StreamChunks for Inline {
  fn stream_chunks<'a>(&'a self, options: &MapOptions, on_chunk: OnChunk<'_, 'a>, on_source: OnSource<'_, 'a>, on_name: OnName<'_, 'a>) -> GeneratedInfo {
    match self.0.source() {
      Cow::Borrowed(t) => stream_chunks_default(t, None, options, on_chunk, on_source, on_name),
      Cow::Owned(_) => unreachable!("OriginalSource::source borrows"),
    }
  }
}

/// Two user-defined sources without any data: every `Box` of either points at the same (dangling) address.
macro_rules! unit_source {
  ($name:ident, $text:expr) => {
    #[derive(Debug, Clone, PartialEq, Eq, Hash)]
    pub struct $name;
    impl Source for $name {
      fn source(&self) -> Cow<str> {
        Cow::Borrowed($text)
      }
      fn rope(&self) -> Rope<'_> {
        Rope::from($text)
      }
      fn buffer(&self) -> Cow<[u8]> {
        Cow::Borrowed($text.as_bytes())
      }
      fn size(&self) -> usize {
        $text.len()
      }
      fn map(&self, _options: &MapOptions) -> Option<SourceMap> {
        None
      }
      fn to_writer(&self, writer: &mut dyn std::io::Write) -> std::io::Result<()> {
        writer.write_all($text.as_bytes())
      }
    }
    impl StreamChunks for $name {
      fn stream_chunks<'a>(&'a self, options: &MapOptions, on_chunk: OnChunk<'_, 'a>, on_source: OnSource<'_, 'a>, on_name: OnName<'_, 'a>) -> GeneratedInfo {
        stream_chunks_default($text, None, options, on_chunk, on_source, on_name)
      }
    }
  };
}
unit_source!(Newline, "\n");
unit_source!(Semicolon, ";");
