//! Known findings: the committed list `/verif/known_findings.json`.
//! Never written at run time.

use std::cell::Cell;

use serde::Deserialize;

#[derive(Deserialize, Debug, Clone)]
pub struct Known {
  pub property: String,
  pub id: String,
  /// "open" or "fixed"
  pub status: String,
  /// substring of the failure reason that identifies this finding
  #[serde(default)]
  pub signature: String,
  /// human description printed on the KNOWN-FINDING line
  #[serde(default)]
  pub what: String,
  /// path (relative to /verif) of the minimal failing input
  #[serde(default)]
  pub replay: String,
  #[serde(default)]
  pub commit: String,
}

pub fn load(verif_dir: &str) -> Vec<Known> {
  let p = format!("{verif_dir}/known_findings.json");
  match std::fs::read_to_string(&p) {
    Ok(s) => {
      let v: serde_json::Value = serde_json::from_str(&s).expect("known_findings.json is JSON");
      serde_json::from_value(v["findings"].clone()).expect("known_findings.json: findings[]")
    }
    Err(_) => vec![],
  }
}

thread_local! {
  static STRICT: Cell<bool> = const { Cell::new(false) };
}

/// Evaluate `f` with every known-finding tolerance switched off.
pub fn with_strict<T>(f: impl FnOnce() -> T) -> T {
  let old = STRICT.with(|s| s.replace(true));
  let r = f();
  STRICT.with(|s| s.set(old));
  r
}

pub fn strict() -> bool {
  STRICT.with(|s| s.get()) || std::env::var_os("VERIF_STRICT").is_some()
}
