//! Coverage-guided campaigns (cargo-fuzz / libFuzzer with AddressSanitizer)
//! as extra stages of a property's thorough tier.

use std::process::Command;

use crate::runner::{Ctx, Stage};

fn runs_for(target: &str) -> u64 {
  match target {
    "decode" => 3_000_000,
    "json" => 1_500_000,
    "codec" => 1_500_000,
    "rope_prog" => 300_000,
    "tree_prog" => 400_000,
    "sched_prog" => 120_000,
    "tree_c02" | "tree_c03" | "tree_c04" | "tree_c11" => 400_000,
    "hist_c05" | "hist_c10" | "pair_c14" => 300_000,
    "triple_c13" => 60_000,
    _ => 500_000,
  }
}

/// Run one libFuzzer campaign per target: fixed number of runs, fixed seed, a fresh
/// temporary corpus seeded from /verif/corpus/<target>.  A crash artifact is re-checked
/// by the target's own replay mode before it is reported.
pub fn campaigns(prop: &str, targets: &[&str], ctx: &Ctx) -> Vec<Stage> {
  let fuzz_dir = format!("{}/harness/fuzz", ctx.verif_dir);
  let mut out = vec![];
  for t in targets {
    let mut st = Stage {
      name: format!("libFuzzer+ASan campaign: {t}"),
      evaluations: 0,
      nontrivial: 0,
      failure: None,
      inconclusive: None,
      details: serde_json::Value::Null,
    };
    let work = format!("{fuzz_dir}/corpus-run/{prop}-{t}");
    let _ = std::fs::remove_dir_all(&work);
    let _ = std::fs::create_dir_all(&work);
    let seed_corpus = format!("{}/corpus/{t}", ctx.verif_dir);
    let artifacts = format!("{}/replays/{prop}/fuzz-{t}/", ctx.verif_dir);
    let _ = std::fs::create_dir_all(&artifacts);
    let stats_file = format!("{work}.stats");
    let _ = std::fs::remove_file(&stats_file);
    let runs = runs_for(t);
    let jobs = ctx.threads.clamp(1, 8);
    let mut cmd = Command::new("cargo");
    cmd
      .current_dir(&fuzz_dir)
      .env("CARGO_NET_OFFLINE", "true")
      .env("RUSTFLAGS", "--cfg rspack_sources_verif")
      .env("VERIF_FUZZ_STATS", &stats_file)
      .args(["+nightly", "fuzz", "run", "--fuzz-dir", ".", t, &work]);
    if std::path::Path::new(&seed_corpus).is_dir() {
      cmd.arg(&seed_corpus);
    }
    cmd.args([
      "--",
      &format!("-runs={}", runs / jobs as u64),
      &format!("-seed={}", (ctx.seed % 0x7fff_ffff).max(1)),
      "-len_control=0",
      "-max_len=512",
      "-timeout=900",
      "-rss_limit_mb=4096",
      &format!("-artifact_prefix={artifacts}"),
      &format!("-jobs={jobs}"),
      &format!("-workers={jobs}"),
      "-print_final_stats=1",
    ]);
    let res = cmd.output();
    match res {
      Err(e) => st.inconclusive = Some(format!("cannot start cargo fuzz: {e}")),
      Ok(o) => {
        // with -jobs the per-job logs are in fuzz-<n>.log in the fuzz dir
        let mut text = String::from_utf8_lossy(&o.stdout).to_string() + &String::from_utf8_lossy(&o.stderr);
        for j in 0..jobs {
          let p = format!("{fuzz_dir}/fuzz-{j}.log");
          if let Ok(s) = std::fs::read_to_string(&p) {
            text.push_str(&s);
            let _ = std::fs::remove_file(&p);
          }
        }
        let execs: u64 = text
          .lines()
          .filter_map(|l| l.strip_prefix("stat::number_of_executed_units:"))
          .filter_map(|v| v.trim().parse::<u64>().ok())
          .sum();
        st.evaluations = execs;
        let crash = std::fs::read_dir(&artifacts)
          .ok()
          .and_then(|d| d.filter_map(|e| e.ok()).map(|e| e.path()).find(|p| p.file_name().is_some_and(|n| {
            let n = n.to_string_lossy();
            n.starts_with("crash-") || n.starts_with("timeout-") || n.starts_with("oom-") || n.starts_with("leak-")
          })));
        // one statistics file per fuzzing process: <stats_file>.<pid>
        let mut nt = 0u64;
        if let Some(dir) = std::path::Path::new(&stats_file).parent() {
          let base = std::path::Path::new(&stats_file).file_name().unwrap().to_string_lossy().to_string();
          if let Ok(rd) = std::fs::read_dir(dir) {
            for e in rd.filter_map(|e| e.ok()) {
              let n = e.file_name().to_string_lossy().to_string();
              if n.starts_with(&format!("{base}.")) {
                nt += std::fs::read_to_string(e.path()).ok().and_then(|s| s.trim().parse::<u64>().ok()).unwrap_or(0);
                let _ = std::fs::remove_file(e.path());
              }
            }
          }
        }
        st.nontrivial = nt;
        st.details = serde_json::json!({ "target": t, "executions": execs, "runs_requested": runs, "jobs": jobs, "sanitizer": "address", "nontrivial_inputs_counted_by_target": nt });
        if let Some(path) = crash {
          let name = path.file_name().unwrap().to_string_lossy().to_string();
          if name.starts_with("timeout-") || name.starts_with("oom-") {
            // a wall-clock alarm also fires when the machine was stopped or badly overloaded: run the
            // input once more on its own; only an input that really does not finish is reported
            let bin = format!("{fuzz_dir}/target/x86_64-unknown-linux-gnu/release/{t}");
            let rerun = Command::new("timeout").args(["600", &bin, &path.to_string_lossy()]).env("VERIF_FUZZ_STATS", &stats_file).output();
            let finished = rerun.as_ref().map(|o| o.status.success()).unwrap_or(false);
            if finished {
              let _ = std::fs::remove_file(&path);
              if let Some(obj) = st.details.as_object_mut() {
                obj.insert("spurious_resource_alarm".into(), serde_json::json!(format!("{name}: the input finishes normally when run on its own; ignored")));
              }
            } else {
              st.inconclusive = Some(format!("libFuzzer reported {name} and the input does not finish within 600 s on its own (resource limit, not a verdict)"));
            }
          } else {
            let summary = text.lines().find(|l| l.contains("panicked at") || l.contains("ERROR: AddressSanitizer") || l.contains("VERIF-ORACLE")).unwrap_or("crash").to_string();
            st.failure = Some((format!("libFuzzer target {t}: {summary}"), path.to_string_lossy().to_string()));
          }
        } else if !o.status.success() && execs == 0 {
          st.inconclusive = Some(format!("cargo fuzz run failed: {}", text.lines().rev().take(5).collect::<Vec<_>>().join(" | ")));
        }
      }
    }
    let _ = std::fs::remove_dir_all(&work);
    out.push(st);
  }
  out
}
