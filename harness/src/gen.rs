//! proptest strategies for `Spec` (construction, not rejection).
//!
//! Everything positional is generated as an abstract selector (u16) and mapped
//! monotonically onto the concrete structure (`sel * n >> 16`), so that
//! shrinking a selector moves the position towards the start.

use proptest::collection::vec;
use proptest::prelude::*;

use crate::observe::{positions, root_join};
use crate::spec::*;

#[derive(Clone, Copy, Debug)]
pub struct GenCfg {
  /// ASCII text only (position properties) vs 1-4 byte UTF-8
  pub ascii: bool,
  /// SourceMapSource leaves with maps consistent with their text
  pub sms: bool,
  /// SourceMapSource leaves with an inner map
  pub sms_inner: bool,
  /// maps whose segments / indices lie outside the text / tables (sorted)
  pub wild: bool,
  pub cached: bool,
  /// allow a CachedSource beneath a ReplaceSource
  pub cached_under_replace: bool,
  /// binary leaves with invalid UTF-8
  pub invalid_utf8: bool,
  pub replace: bool,
  /// replacement positions far beyond the end (u32::MAX etc.)
  pub huge_positions: bool,
  pub depth: u32,
  pub max_children: usize,
  pub max_tokens: usize,
}

impl GenCfg {
  /// ASCII trees with consistent SMS leaves (C02, C03, C11, ...)
  pub const fn positional() -> Self {
    GenCfg {
      ascii: true,
      sms: true,
      sms_inner: true,
      wild: false,
      cached: true,
      cached_under_replace: true,
      invalid_utf8: false,
      replace: true,
      huge_positions: false,
      depth: 3,
      max_children: 4,
      max_tokens: 10,
    }
  }
  /// multi-byte text, wild maps (C01, C17, C19)
  pub const fn wild() -> Self {
    GenCfg {
      ascii: false,
      sms: true,
      sms_inner: true,
      wild: true,
      cached: true,
      cached_under_replace: true,
      invalid_utf8: true,
      replace: true,
      huge_positions: true,
      depth: 3,
      max_children: 4,
      max_tokens: 10,
    }
  }
  /// larger ASCII trees: deeper, more children, longer (multi-line) leaf texts
  pub const fn positional_large() -> Self {
    GenCfg { depth: 4, max_children: 6, max_tokens: 30, ..GenCfg::positional() }
  }
  /// larger wild trees
  pub const fn wild_large() -> Self {
    GenCfg { depth: 4, max_children: 6, max_tokens: 30, ..GenCfg::wild() }
  }
  /// Raw*/Original/Concat/Replace/Cached only (C04)
  pub const fn provenance() -> Self {
    GenCfg {
      ascii: true,
      sms: false,
      sms_inner: false,
      wild: false,
      cached: true,
      cached_under_replace: false,
      invalid_utf8: false,
      replace: true,
      huge_positions: false,
      depth: 3,
      max_children: 4,
      max_tokens: 10,
    }
  }
}

const ALPH: &[&str] = &[
  "a", "b", "c", " ", ";", "{", "}", "\n", "\n", "xy", "\t", "fn", "\r", "a", "\n",
  // bytes one bit away from a delimiter ('\n' ^ 1 = VT, '\n' ^ 6 = FF, '\n' | 0x20 = '*', '\n' | 0x40 = 'J', ';' ^ 1 = ':'),
  // also right behind it
  "\n\x0b", "\x0b", "\x0c", "*", "J", ":", "\n",
];
// besides 1-4 byte characters: characters whose continuation bytes are a delimiter's byte with the top
// bit set (U+FEFF = EF BB BF, » = C2 BB, 们 = E4 BB AC: ';' | 0x80;  U+008A = C2 8A, ⊻ = E2 8A BB:
// '\n' | 0x80;  U+00A0 = C2 A0: ' ' | 0x80;  ý = C3 BD: '}' | 0x80; û = C3 BB)
const ALPH_MB: &[&str] = &[
  "a", "é", "日", "😀", ";", "\n", "{", " ", "b", "\n", "}", "ß", "\u{2028}", "x\r", "\u{feff}", "»", "们", "\n",
  "\u{8a}", "⊻", "\u{a0}", "ý", "û", "\n\x0b", "\x0c", ":",
];

pub fn idx(sel: u16, n: usize) -> usize {
  if n == 0 {
    0
  } else {
    ((sel as usize) * n) >> 16
  }
}

pub fn text(ascii: bool, max_tokens: usize) -> BoxedStrategy<String> {
  let alph: &'static [&'static str] = if ascii { ALPH } else { ALPH_MB };
  let short = vec(any::<u16>(), 0..=max_tokens)
    .prop_map(move |v| v.into_iter().map(|s| alph[idx(s, alph.len())]).collect::<String>());
  // now and then a long text: a short pattern repeated beyond a size at which implementations switch
  // strategy (lines of more than 512 columns, texts of more than 4096 / 8192 bytes), either as one
  // line or as many
  let long = (vec(any::<u16>(), 1..=8), 0u8..6u8, any::<bool>()).prop_map(move |(v, k, one_line)| {
    let mut pat: String = v.into_iter().map(|s| alph[idx(s, alph.len())]).collect();
    if one_line {
      pat = pat.replace('\n', "");
    }
    if pat.is_empty() {
      pat.push('a');
    }
    let want = [520usize, 520, 1100, 1100, 4100, 8200][k as usize];
    let mut out = String::new();
    while out.len() < want {
      out.push_str(&pat);
    }
    out
  });
  // now and then a statement (or a run of line breaks) whose length is exactly at, one below or one above a value at
  // which a base64-VLQ delta needs one more digit (16, 512, 16384) or a power of two in between, followed by short text:
  // the next token then starts exactly that many columns (lines) further on
  let short2 = vec(any::<u16>(), 0..=max_tokens.min(4))
    .prop_map(move |v| v.into_iter().map(|s| alph[idx(s, alph.len())]).collect::<String>());
  let threshold = (0u8..14u8, 0u8..3u8, any::<bool>(), short2.clone(), short2).prop_map(|(k, d, lines, pre, post)| {
    let base = [16usize, 16, 32, 64, 256, 512, 512, 512, 512, 1024, 1024, 4096, 512, 16384][k as usize];
    let n = base + d as usize - 1;
    let mut out = pre;
    if lines {
      // n line breaks; the token behind them starts n lines further down
      out.push_str("x;");
      out.push_str(&"\n".repeat(n));
    } else {
      if !out.ends_with('\n') && !out.is_empty() {
        out.push('\n');
      }
      out.push_str(&"a".repeat(n - 1));
      out.push(';');
    }
    out.push_str("b;");
    out.push_str(&post);
    out
  });
  prop_oneof![300 => short, 1 => long, 2 => threshold].boxed()
}

/// bytes of a binary leaf: valid UTF-8, or with injected invalid sequences
pub fn bytes(cfg: GenCfg) -> BoxedStrategy<Vec<u8>> {
  if !cfg.invalid_utf8 {
    return text(cfg.ascii, cfg.max_tokens).prop_map(|s| s.into_bytes()).boxed();
  }
  const BAD: &[&[u8]] = &[
    b"\x80",
    b"\xbf",
    b"\xc3",
    b"\xe6\x97",
    b"\xf0\x9f\x98",
    b"\xc0\xaf",
    b"\xff",
    b"\xed\xa0\x80",
    b"a",
    b"\n",
  ];
  vec((any::<u16>(), any::<bool>()), 0..=cfg.max_tokens)
    .prop_map(move |v| {
      let mut out = vec![];
      for (s, bad) in v {
        if bad {
          out.extend_from_slice(BAD[idx(s, BAD.len())]);
        } else {
          out.extend_from_slice(ALPH_MB[idx(s, ALPH_MB.len())].as_bytes());
        }
      }
      out
    })
    .boxed()
}

// ---------------------------------------------------------------- replacements

#[derive(Clone, Debug)]
pub struct AbsRepl {
  a: u16,
  b: u16,
  insert: bool,
  beyond: u8,
  content: String,
  name: u8,
  enforce: u8,
}

impl AbsRepl {
  #[allow(clippy::too_many_arguments)]
  pub fn new(a: u16, b: u16, insert: bool, beyond: u8, content: String, name: u8, enforce: u8) -> Self {
    AbsRepl { a, b, insert, beyond, content, name, enforce }
  }
}

pub fn abs_repl(cfg: GenCfg) -> impl Strategy<Value = AbsRepl> {
  (
    any::<u16>(),
    any::<u16>(),
    prop::bool::weighted(0.35),
    prop_oneof![6 => Just(0u8), 1 => 1u8..4u8],
    prop_oneof![1 => Just(String::new()), 4 => text(cfg.ascii, 3)],
    0u8..6u8,
    prop_oneof![1 => Just(0u8), 3 => Just(1u8), 1 => Just(2u8)],
  )
    .prop_map(|(a, b, insert, beyond, content, name, enforce)| AbsRepl {
      a,
      b,
      insert,
      beyond,
      content,
      name,
      enforce,
    })
}

/// Map abstract replacements onto `t`: positions come from a pool of at most
/// six cut points on char boundaries (so equal keys, nesting, touching and
/// overlapping ranges are frequent) or lie beyond the end.
pub fn concretize_repls(t: &str, pool_sel: &[u16], abs: &[AbsRepl], huge: bool) -> Vec<Repl> {
  let bounds: Vec<usize> = (0..=t.len()).filter(|&i| t.is_char_boundary(i)).collect();
  let mut pool: Vec<u32> = pool_sel.iter().map(|&s| bounds[idx(s, bounds.len())] as u32).collect();
  if pool.is_empty() {
    pool.push(0);
  }
  pool.sort_unstable();
  let mut out: Vec<Repl> = abs
    .iter()
    .map(|r| {
      let (mut start, mut end);
      if r.beyond > 0 {
        start = t.len() as u32 + (r.beyond as u32 - 1) * 2;
        end = if r.insert { start } else { start + idx(r.b, 4) as u32 };
        if huge && r.beyond == 3 {
          end = u32::MAX;
          if r.insert {
            start = u32::MAX;
          }
        }
      } else {
        let i = idx(r.a, pool.len());
        start = pool[i];
        end = if r.insert {
          start
        } else {
          let j = i + idx(r.b, pool.len() - i);
          if j == pool.len() - 1 && r.b > 60000 {
            // reaches past the end of the text ("to the end" is often spelled with a huge number)
            if huge {
              [t.len() as u32 + 3, 1 << 30, 1 << 31, u32::MAX][r.b as usize % 4]
            } else {
              t.len() as u32 + 3
            }
          } else {
            pool[j]
          }
        };
      }
      let end = end.max(start);
      // now and then the content is exactly the text it replaces (a no-op in the text, not in the map)
      let same_text = r.b % 13 == 4 && start < end && (end as usize) <= t.len();
      Repl {
        start,
        end,
        content: if same_text { t[start as usize..end as usize].to_string() } else { r.content.clone() },
        name: match r.name {
          0 => Some("n1".to_string()),
          1 => Some("n2".to_string()),
          _ => None,
        },
        enforce: r.enforce,
      }
    })
    .collect();
  // now and then a call is repeated verbatim right away
  for i in 1..out.len() {
    if abs[i].a % 17 == 3 {
      out[i] = out[i - 1].clone();
    }
  }
  out
}

pub fn repls_for(cfg: GenCfg, max: usize) -> impl Strategy<Value = (Vec<u16>, Vec<AbsRepl>)> {
  (vec(any::<u16>(), 1..=6), vec(abs_repl(cfg), 0..=max))
}

// ------------------------------------------------------------------------ maps

#[derive(Clone, Debug)]
pub struct AbsSeg {
  pos: u16,
  mapped: u8,
  src: u16,
  oline: u16,
  ocol: u16,
  name: u8,
}

impl AbsSeg {
  pub fn new(pos: u16, mapped: u8, src: u16, oline: u16, ocol: u16, name: u8) -> Self {
    AbsSeg { pos, mapped, src, oline, ocol, name }
  }
}

impl AbsMap {
  #[allow(clippy::too_many_arguments)]
  pub fn new(segs: Vec<AbsSeg>, nsrc: u8, nnames: u8, dup_names: bool, content_mode: u8, root: u8, src_base: u8, wild: bool) -> Self {
    AbsMap { segs, nsrc: nsrc.clamp(1, 3), nnames: nnames.min(3), dup_names, content_mode: content_mode.min(3), root, src_base, wild, allow_dups: false, wide: 0 }
  }
  /// 1: 17-40 sources and names, 2: tables around 256 entries (see `concretize_map`)
  pub fn widen(mut self, k: u8) -> Self {
    self.wide = k.min(2);
    self
  }
  pub fn with_dups(mut self) -> Self {
    self.allow_dups = true;
    self
  }
}

pub fn abs_seg() -> impl Strategy<Value = AbsSeg> {
  (any::<u16>(), 0u8..5u8, any::<u16>(), any::<u16>(), any::<u16>(), 0u8..8u8).prop_map(
    |(pos, mapped, src, oline, ocol, name)| AbsSeg {
      pos,
      mapped,
      src,
      oline,
      ocol,
      name,
    },
  )
}

#[derive(Clone, Debug)]
pub struct AbsMap {
  segs: Vec<AbsSeg>,
  nsrc: u8,
  nnames: u8,
  dup_names: bool,
  /// 0 = no sourcesContent, 1 = generic contents, 2 = one source's content is the generated text (identity-ish)
  content_mode: u8,
  root: u8,
  src_base: u8,
  wild: bool,
  /// keep a second segment at the same generated position (the first one then has zero extent)
  allow_dups: bool,
  /// 0 = tables of 1-3 sources / 0-3 names; 1 = 17-40 of each; 2 = 255 / 256 / 257 / 300 of each
  wide: u8,
}

pub fn abs_map(cfg: GenCfg) -> impl Strategy<Value = AbsMap> {
  (
    vec(abs_seg(), 0..=8),
    // 1-3 sources; now and then none at all (then no segment can be mapped)
    prop_oneof![1 => Just(0u8), 14 => 1u8..=3u8],
    0u8..=3u8,
    prop::bool::weighted(0.25),
    0u8..5u8,
    0u8..8u8,
    0u8..4u8,
    if cfg.wild {
      prop::bool::weighted(0.5).boxed()
    } else {
      Just(false).boxed()
    },
  )
    .prop_map(
      |(segs, nsrc, nnames, dup_names, content_mode, root, src_base, wild)| AbsMap {
        segs,
        nsrc,
        nnames,
        dup_names,
        content_mode: content_mode.min(3),
        root,
        src_base,
        wild,
        allow_dups: false,
        wide: 0,
      },
    )
}

/// Maps with *large tables*: 10-40 segments over 17-40 (level 1) or 255-300 (level 2) sources and names, so that
/// source / name indices do not fit a nibble / a byte, tables grow past their first capacity and a segment's
/// indices differ from its predecessor's by multi-digit VLQ deltas.
pub fn abs_map_wide(cfg: GenCfg) -> impl Strategy<Value = AbsMap> {
  (abs_map(cfg), vec(abs_seg(), 10..=40), prop_oneof![2 => Just(1u8), 1 => Just(2u8)]).prop_map(|(mut am, segs, level)| {
    am.segs = segs;
    am.wide = level;
    am.nsrc = am.nsrc.max(1);
    am
  })
}

const PAD_LINE: &str = "/* pad */\n";
const PAD_LINES: u32 = 6600;
pub const GENERIC_CONTENT: &str = "content a;b\nline2 abc;def\n  xy{fn}\n";

/// Make a concrete map for text `t`.
/// Consistent maps: segments sorted, on char positions of `t` (or the
/// zero-width end position), indices inside the tables.
/// Wild maps (only if requested): sorted segments anywhere up to a few lines /
/// columns beyond the text, source and name indices beyond the tables, huge
/// original lines; original line stays >= 1.
pub fn concretize_map(t: &str, am: &AbsMap, ascii: bool) -> MapSpec {
  const AROUND_256: [usize; 4] = [255, 256, 257, 300];
  let nsrc = match am.wide {
    0 => am.nsrc as usize,
    1 => 17 + (am.nsrc as usize * 7 + am.src_base as usize) % 24,
    _ => AROUND_256[(am.nsrc as usize + am.src_base as usize) % 4],
  };
  let nnames = match am.wide {
    0 => am.nnames as usize,
    1 => 17 + (am.nnames as usize * 5 + am.root as usize) % 24,
    _ => AROUND_256[(am.nnames as usize + am.root as usize) % 4],
  };
  let mut sources: Vec<String> = (0..nsrc)
    .map(|i| if i < 5 { format!("s{}.js", (am.src_base as usize + i) % 5) } else { format!("w{i}.js") })
    .collect();
  // now and then a name that repeats the sourceRoot as its own first directory ("rt" + "rt/s0.js")
  if am.src_base == 2 && nsrc >= 1 && matches!(am.root, 1 | 2) && am.nnames % 2 == 0 {
    sources[0] = format!("rt/{}", sources[0]);
  }
  // now and then a name of another shape: absolute, with directories, a URL, or empty
  if nsrc >= 1 && am.src_base == 3 && am.root % 2 == 1 {
    let odd = ["/abs/s.js", "dir/sub/s.js", "http://h/s.js", "../up.js", ""];
    let k = (am.nnames as usize + nsrc) % odd.len();
    sources[0] = odd[k].to_string();
  }
  // now and then the same file is listed twice (consistent maps: only where both entries then carry the same
  // content; `normalize` renames one of them otherwise)
  if am.dup_names && nsrc >= 2 && (am.wild || am.content_mode <= 1) {
    let first = sources[0].clone();
    *sources.last_mut().unwrap() = first;
  }
  // names: "nm<i>", or (every other map) words of the text alphabet, so that a name can really be the text
  // found at an original position (the combined-map rule keeps an outer name only then)
  let names: Vec<String> = (0..nnames)
    .map(|i| {
      if am.dup_names {
        // (large tables: duplicates among many distinct names)
        format!("nm{}", if am.wide > 0 { i % 7 } else { 0 })
      } else if am.src_base % 2 == 1 {
        if i < 3 { ["a", "fn", "xy"][i].to_string() } else { format!("{}{i}", ["a", "fn", "xy"][i % 3]) }
      } else {
        format!("nm{i}")
      }
    })
    .collect();
  let contents: Vec<String> = match am.content_mode {
    0 => vec![],
    1 => sources.iter().map(|s| format!("{GENERIC_CONTENT}// {s}\n")).collect(),
    2 => sources
      .iter()
      .enumerate()
      .map(|(i, s)| if i == 0 { t.to_string() } else { format!("{GENERIC_CONTENT}// {s}\n") })
      .collect(),
    // "identity behind a large prefix": the first source is PAD_LINES filler lines (more than 64 KiB) followed by the
    // generated text; segments into it map (l, c) -> (l + PAD_LINES, c)
    4 => sources
      .iter()
      .enumerate()
      .map(|(i, s)| if i == 0 { format!("{}{t}", PAD_LINE.repeat(PAD_LINES as usize)) } else { format!("{GENERIC_CONTENT}// {s}\n") })
      .collect(),
    // "shifted identity": line k of the first source is two blanks + line k of the generated text
    // cut short by 0 or 1 characters, and the content does not end in a line break; segments into it
    // map (l, c) -> (l, c + 2), so chunk text equals the recorded original text up to the cut / the
    // end of the content and then stops matching
    _ => sources
      .iter()
      .enumerate()
      .map(|(i, s)| {
        if i == 0 {
          let lines: Vec<String> = t
            .split_inclusive('\n')
            .enumerate()
            .map(|(k, l)| {
              let body = l.strip_suffix('\n').unwrap_or(l);
              let keep = body.chars().count().saturating_sub((k + am.src_base as usize) % 2);
              format!("  {}", body.chars().take(keep).collect::<String>())
            })
            .collect();
          lines.join("\n")
        } else {
          format!("{GENERIC_CONTENT}// {s}\n")
        }
      })
      .collect(),
  };
  // now and then sourcesContent is shorter than sources (only the first files carry their text)
  let mut contents = contents;
  let listed_twice = nsrc >= 2 && sources[0] == sources[nsrc - 1];
  if am.nnames == 1 && am.src_base >= 2 && contents.len() >= 2 && (am.wild || !listed_twice) {
    contents.truncate(contents.len() - 1);
  }
  let root = match am.root {
    0 => Some(String::new()),
    1 => Some("rt".to_string()),
    2 => Some("rt/".to_string()),
    3 => Some("w://".to_string()),
    4 => Some("/".to_string()),
    _ => None,
  };
  let mut segs: Vec<Seg> = vec![];
  if am.wild {
    // independent of the text, sorted by construction
    let (mut l, mut c) = (1u32, 0u32);
    for (k, a) in am.segs.iter().enumerate() {
      if k > 0 {
        if a.pos % 3 == 0 {
          l += 1 + (a.pos as u32 >> 14);
          c = (a.pos as u32 >> 8) & 3;
        } else if c >= u32::MAX - 8 {
          // nothing lies to the right of an extreme column: continue on the next line
          l += 1;
          c = 0;
        } else {
          c += 1 + ((a.pos as u32 >> 8) & 3);
        }
      } else {
        c = (a.pos as u32 >> 12) & 3;
      }
      let orig = if a.mapped == 0 {
        None
      } else {
        // mostly small values around the tables / the text, now and then extreme ones
        let extreme = |sel: u16, small: u32| -> u32 {
          match sel % 23 {
            0 => u32::MAX,
            1 => u32::MAX - 1,
            2 => 1 << 31,
            3 => (1 << 29) + 1,
            _ => small,
          }
        };
        Some(Orig {
          src: extreme(a.src, idx(a.src, 4) as u32),
          line: extreme(a.oline, 1 + idx(a.oline, 5) as u32 * if a.oline % 8 == 0 { 1000 } else { 1 }).max(1),
          col: extreme(a.ocol, idx(a.ocol, 8) as u32 * if a.ocol % 16 == 0 { 100000 } else { 1 }),
          name: if a.name < 4 { Some(extreme(a.pos.rotate_left(3), a.name as u32)) } else { None },
        })
      };
      // generated columns far beyond the line now and then (the generated line stays near the text:
      // the splitter's work is linear in it)
      let gc = match a.ocol % 29 {
        0 => c.max(u32::MAX - 2),
        1 => c.max(1 << 31),
        _ => c,
      };
      if gc != c {
        c = gc;
      }
      segs.push(Seg { line: l, col: c, orig });
    }
  } else {
    // positions: every char start, plus the end position; columns in chars
    // (== bytes for ASCII)
    let mut posn: Vec<(u32, u32)> = vec![];
    let (mut l, mut c) = (1u32, 0u32);
    for ch in t.chars() {
      posn.push((l, c));
      if ch == '\n' {
        l += 1;
        c = 0;
      } else {
        c += 1;
      }
    }
    posn.push((l, c));
    let _ = ascii;
    let mut chosen: Vec<(usize, &AbsSeg)> =
      am.segs.iter().map(|a| (idx(a.pos, posn.len()), a)).collect();
    chosen.sort_by_key(|x| x.0);
    if am.allow_dups {
      // at most two segments per position, the second only now and then
      let mut kept: Vec<(usize, &AbsSeg)> = vec![];
      for c in chosen {
        let same = kept.iter().filter(|k| k.0 == c.0).count();
        if same == 0 || (same == 1 && c.1.ocol % 3 == 0) {
          kept.push(c);
        }
      }
      chosen = kept;
    } else {
      chosen.dedup_by_key(|x| x.0);
    }
    for (pi, a) in chosen {
      let (l, c) = posn[pi];
      let orig = if a.mapped == 0 || nsrc == 0 {
        None
      } else {
        let src = idx(a.src, nsrc) as u32;
        let identity = am.content_mode == 2 && src == 0 && a.mapped >= 3;
        let padded = am.content_mode == 4 && src == 0 && a.mapped >= 2;
        let name = if am.wide > 0 {
          // large tables: any entry, chosen independently of the source
          if a.name < 6 { Some(idx(a.src.rotate_left(5) ^ a.ocol, names.len()) as u32) } else { None }
        } else if (a.name as usize) < names.len() {
          Some(a.name as u32)
        } else {
          None
        };
        if padded {
          Some(Orig { src, line: l + PAD_LINES, col: c, name })
        } else if identity {
          Some(Orig { src, line: l, col: c, name })
        } else if am.content_mode == 3 && src == 0 && a.mapped >= 2 {
          Some(Orig { src, line: l, col: c + 2, name })
        } else {
          // now and then far away, so that consecutive segments differ by several hundred lines /
          // columns (multi-digit VLQ deltas of both signs)
          Some(Orig {
            src,
            line: 1 + idx(a.oline, 4) as u32 + if a.oline % 16 == 5 { 600 } else { 0 },
            col: idx(a.ocol, 7) as u32 + if a.ocol % 16 == 9 { 700 } else { 0 },
            name,
          })
        }
      };
      segs.push(Seg { line: l, col: c, orig });
    }
  }
  MapSpec {
    segs,
    sources,
    contents,
    names,
    root,
    file: None,
    debug_id: None,
  }
}

// ----------------------------------------------------------------------- trees

pub fn leaf(cfg: GenCfg) -> BoxedStrategy<Spec> {
  let t = text(cfg.ascii, cfg.max_tokens);
  let mut alts: Vec<(u32, BoxedStrategy<Spec>)> = vec![
    (2, t.clone().prop_map(Spec::Raw).boxed()),
    (1, t.clone().prop_map(Spec::RawStr).boxed()),
    (1, bytes(cfg).prop_map(Spec::RawBuf).boxed()),
    (1, bytes(cfg).prop_map(Spec::RawBytes).boxed()),
    (
      5,
      (t.clone(), 0u8..5u8)
        .prop_map(|(text, k)| Spec::Orig { text, name: format!("f{k}.js") })
        .boxed(),
    ),
  ];
  if cfg.sms {
    alts.push((
      4,
      (t.clone(), abs_map(cfg), 0u8..3u8, 0u8..8u8)
        .prop_map(move |(text, am, k, f)| {
          let mut map = concretize_map(&text, &am, cfg.ascii);
          let _ = &mut map;
          // now and then through the full options (no inner map): original_source / remove_original_source
          // then take part in == and hash only
          let full = match f {
            0 => Some((None, true)),
            1 => Some((Some("orig".to_string()), false)),
            2 => Some((None, false)),
            _ => None,
          };
          Spec::Sms { text, name: format!("g{k}.js"), map, full }
        })
        .boxed(),
    ));
  }
  if cfg.sms_inner {
    alts.push((2, sms_inner(cfg)));
  }
  prop::strategy::Union::new_weighted(alts).boxed()
}

/// SourceMapSource with inner map: one outer source is the SMS name; the
/// original text comes from `original_source` and/or the outer sourcesContent
/// (at least one, the API's precondition).
pub fn sms_inner(cfg: GenCfg) -> BoxedStrategy<Spec> {
  sms_inner_with(cfg, abs_map(cfg).boxed(), abs_map(cfg).boxed(), text(cfg.ascii, cfg.max_tokens), text(cfg.ascii, cfg.max_tokens))
}

/// `sms_inner` whose inner map carries a sourcesContent entry larger than 64 KiB for its first file: that file is a large
/// filler prefix followed by the (small) original text, and the inner segments into it are the identity shifted down by
/// the prefix ("identity behind a large prefix", content mode 4).  One case in four instead makes the original text itself
/// (and the identical first content entry) larger than 64 KiB / 128 KiB.
pub fn sms_inner_huge(cfg: GenCfg) -> BoxedStrategy<Spec> {
  let alph: &'static [&'static str] = if cfg.ascii { ALPH } else { ALPH_MB };
  let big = (vec(any::<u16>(), 3..=12), 0u8..4u8).prop_map(move |(v, k)| {
    let mut pat: String = v.into_iter().map(|s| alph[idx(s, alph.len())]).collect();
    pat.push_str("fn a;\n");
    let want = [65_537usize, 66_000, 70_000, 131_100][k as usize];
    let mut out = String::with_capacity(want + pat.len());
    while out.len() < want {
      out.push_str(&pat);
    }
    out
  });
  let ident = abs_map(cfg).prop_map(|mut am| {
    am.content_mode = 2 + am.content_mode % 2;
    am
  });
  let padded = abs_map(cfg).prop_map(|mut am| {
    am.content_mode = 4;
    am
  });
  prop_oneof![
    3 => sms_inner_with(cfg, abs_map(cfg).boxed(), padded.boxed(), text(cfg.ascii, cfg.max_tokens), text(cfg.ascii, cfg.max_tokens)),
    1 => sms_inner_with(cfg, abs_map(cfg).boxed(), ident.boxed(), text(cfg.ascii, cfg.max_tokens), big.boxed()),
  ]
  .boxed()
}

/// `sms_inner` over given strategies for the outer and the inner map (large tables: `abs_map_wide`).
pub fn sms_inner_with(cfg: GenCfg, outer: BoxedStrategy<AbsMap>, inner: BoxedStrategy<AbsMap>, text: BoxedStrategy<String>, orig: BoxedStrategy<String>) -> BoxedStrategy<Spec> {
  (
    text,
    outer,
    orig,
    inner,
    0u8..3u8,
    any::<u16>(),
    0u8..3u8,
    prop::bool::weighted(0.3),
    vec((any::<u16>(), any::<u16>()), 0..=8),
  )
    .prop_map(move |(text, am, orig, aim, k, which, give, remove, opos)| {
      let mut map = concretize_map(&text, &am, cfg.ascii);
      let name = format!("g{k}.js");
      if map.sources.is_empty() {
        // the outer map of a combined source lists at least the inner source
        map.sources.push(String::new());
        if !map.contents.is_empty() {
          map.contents.push(String::new());
        }
      }
      let w = idx(which, map.sources.len());
      // the outer map is written relative to no root for the inner source to be found by name
      map.root = None;
      map.sources[w] = name.clone();
      // now and then another outer source is a look-alike of the inner one: "<dir>/<inner name>"
      if which % 7 == 3 && map.sources.len() >= 2 {
        let other = (w + 1) % map.sources.len();
        map.sources[other] = format!("lib/{name}");
      }
      // wild: now and then the outer map lists the inner source's name twice
      if cfg.wild && which % 5 == 2 && map.sources.len() >= 2 {
        let other = (w + 1) % map.sources.len();
        map.sources[other] = name.clone();
      }
      // outer original positions into the inner source: mostly inside `orig`
      let (opositions, oend) = positions(&orig);
      let mut oall = opositions.clone();
      oall.push(oend);
      if !am.wild {
        let mut n = 0;
        let mut last_inner: Option<(u32, u32)> = None;
        for s in map.segs.iter_mut() {
          if let Some(o) = s.orig.as_mut() {
            if o.src as usize == w {
              if let Some((ps, off)) = opos.get(n) {
                let (l, c) = oall[idx(*ps, oall.len())];
                o.line = l;
                o.col = c + if *off % 7 == 0 { 1 + (*off as u32 >> 14) } else { 0 };
                // now and then exactly where the previous segment into the inner source pointed
                if *off % 5 == 1 {
                  if let Some((pl, pc)) = last_inner {
                    o.line = pl;
                    o.col = pc;
                  }
                }
                last_inner = Some((o.line, o.col));
                // every other time: where the original text at that position spells one of the outer map's names, the
                // segment carries that name (the combined map keeps an outer name only then)
                if *off % 2 == 0 {
                  if let Some(b) = oall.iter().position(|p| *p == (o.line, o.col)) {
                    if let Some(k) = map.names.iter().position(|n| !n.is_empty() && orig.get(b..).is_some_and(|rest| rest.starts_with(n.as_str()))) {
                      o.name = Some(k as u32);
                    }
                  }
                }
              }
              n += 1;
            }
          }
        }
      }
      let mut inner = concretize_map(&orig, &aim, cfg.ascii);
      // inner sources get their own name space - except now and then, when a file of the inner map may
      // carry the name of a file the outer map passes through (`normalize` keeps a shared name only
      // for identical content)
      if which % 4 != 1 {
        for s in inner.sources.iter_mut() {
          *s = format!("i{s}");
        }
      }
      // (the outer sourcesContent may be shorter than sources: then the inner source has no entry)
      let has_content = w < map.contents.len();
      if has_content {
        map.contents[w] = orig.clone();
      }
      let original = match (has_content, give) {
        (false, _) => Some(orig.clone()),
        (true, 0) => None,
        (true, _) => Some(orig.clone()),
      };
      Spec::SmsInner { text, name, map, original, inner, remove }
    })
    .boxed()
}

/// `sms_inner`, with the outer map written relative to a sourceRoot: the inner source is named by the joined
/// name ("<root>/<entry>"), which is how the library finds it, and no entry of the outer `sources` equals that
/// name literally.  Apply after `normalize`.
pub fn rooted_inner(spec: Spec, style: u8) -> Spec {
  match spec {
    Spec::SmsInner { text, name, mut map, original, inner, remove } => {
      // (roots no other generated name starts with: the joined names cannot collide with a file of the inner map)
      let root = ["or", "or/", "", "/abs/odir", "webpack://opkg/"][style as usize % 5];
      map.root = Some(root.to_string());
      let name = crate::observe::root_join(Some(root), &name);
      Spec::SmsInner { text, name, map, original, inner, remove }
    }
    other => other,
  }
}

/// A SourceMapSource whose first line is longer than 64 KiB (30 000 - 70 000 characters of 1-3 bytes), with
/// consistent segments spread over the whole line, bare or under one wrapper: table sizes, offsets and
/// counters that fit 16 bits in every test text do not here.
pub fn huge_line_tree() -> BoxedStrategy<Spec> {
  (0u8..3u8, 30_000usize..70_000, vec((any::<u16>(), 0u8..4u8), 1..=6), 0u8..5u8, any::<bool>())
    .prop_map(|(kind, n, marks, wrap, second_line)| {
      let ch = ["é", "€", "a"][kind as usize];
      let mut text = ch.repeat(n);
      text.push('\n');
      if second_line {
        text.push_str("zz;\n");
      }
      // columns in characters, sorted, distinct
      let mut cols: Vec<(u32, u8)> = marks.into_iter().map(|(sel, m)| ((((sel as usize) * n) >> 16) as u32, m)).collect();
      cols.push((0, 1));
      cols.sort_by_key(|c| c.0);
      cols.dedup_by_key(|c| c.0);
      let segs = cols
        .into_iter()
        .map(|(col, m)| Seg { line: 1, col, orig: if m == 0 { None } else { Some(Orig { src: 0, line: 1 + (m as u32), col: m as u32, name: None }) } })
        .collect();
      let map = MapSpec { segs, sources: vec!["long.js".into()], contents: vec![], names: vec![], root: None, file: None, debug_id: None };
      let sms = Spec::Sms { text, name: "g0.js".into(), map, full: None };
      match wrap {
        0 => sms,
        1 => Spec::Cached(Box::new(sms)),
        2 => Spec::Concat { how: 0, children: vec![sms, Spec::Raw("tail".into())] },
        3 => Spec::Concat { how: 2, children: vec![Spec::Orig { text: "head;".into(), name: "f0.js".into() }, Spec::Cached(Box::new(sms))] },
        _ => Spec::Replace { inner: Box::new(sms), repls: vec![Repl { start: ch.len() as u32, end: ch.len() as u32, content: "+".into(), name: None, enforce: 1 }] },
      }
    })
    .boxed()
}

/// A stack of 2-3 ReplaceSources over one leaf (or a two-leaf ConcatSource): the innermost one gets several
/// insertions at / beyond the end (they make multi-piece chunks), the ones above cut inside what is below.
pub fn replace_stack(cfg: GenCfg) -> BoxedStrategy<Spec> {
  (
    vec(leaf(cfg), 1..=2),
    vec((any::<u16>(), text(cfg.ascii, 3), 0u8..3u8), 1..=4),
    repls_for(cfg, 3),
    repls_for(cfg, 3),
    proptest::option::weighted(0.6, repls_for(cfg, 3)),
  )
    .prop_map(move |(leaves, tail, r0, r1, r2)| {
      let base = if leaves.len() == 1 { leaves.into_iter().next().unwrap() } else { Spec::Concat { how: 0, children: leaves } };
      let t = model_text(&base);
      let mut repls = concretize_repls(&t, &r0.0, &r0.1, false);
      // insertions at the end and a little beyond it, in the order given
      let end = t.len() as u32;
      for (sel, content, e) in tail {
        let p = end + (sel % 3) as u32;
        repls.push(Repl { start: p, end: p, content, name: None, enforce: e });
      }
      let mut s = Spec::Replace { inner: Box::new(base), repls };
      for r in [Some(r1), r2].into_iter().flatten() {
        let t = model_text(&s);
        s = Spec::Replace { inner: Box::new(s), repls: concretize_repls(&t, &r.0, &r.1, false) };
      }
      normalize(s, cfg)
    })
    .boxed()
}

/// Trees: seven in eight are recursive trees of bounded depth (`tree_rec`), one in eight is a *tower* - a chain of 4-8
/// wrappers of differing kinds over a small base, i.e. the depth and the stacking of composite types that the
/// recursive generator (16 nodes wanted, depth <= 3 or 4) produces only rarely.
pub fn tree(cfg: GenCfg) -> BoxedStrategy<Spec> {
  prop_oneof![28 => tree_rec(cfg), 4 => tower(cfg), 1 => wide(cfg)].boxed()
}

/// *Wide* trees (one tree in 33): sizes and counts the recursive generator never reaches.
/// (a) a ConcatSource of 9-40 small children (leaves, now and then a small composite); (b) a SourceMapSource (plain, or with inner map) whose maps have large
/// tables (`abs_map_wide`: 17-40 or 255-300 sources and names, 10-40 segments) over a text of up to 40 tokens, bare or under
/// one wrapper; (c) a ReplaceSource with 17-80 replacements over a pool of up to 40 cut points in a text of up to 30 tokens;
/// each of them bare or beneath 1-2 further layers of the kinds `tower` stacks.
pub fn wide(cfg: GenCfg) -> BoxedStrategy<Spec> {
  let small = GenCfg { max_tokens: cfg.max_tokens.min(3), ..cfg };
  // (children: mostly leaves, now and then a small composite - whose rope, chunk stream and tables are its own)
  let child = prop_oneof![5 => leaf(small), 1 => tree_rec(GenCfg { depth: 2, max_children: 3, ..small })];
  let mut alts: Vec<(u32, BoxedStrategy<Spec>)> =
    vec![(2, (vec(child, 9..=40), 0u8..5u8).prop_map(|(children, how)| Spec::Concat { how, children }).boxed())];
  if cfg.sms {
    let plain = (text(cfg.ascii, 40), abs_map_wide(cfg), 0u8..3u8)
      .prop_map(move |(text, am, k)| {
        let map = concretize_map(&text, &am, cfg.ascii);
        Spec::Sms { text, name: format!("g{k}.js"), map, full: None }
      })
      .boxed();
    let big: BoxedStrategy<Spec> = if cfg.sms_inner {
      prop_oneof![
        2 => plain,
        1 => sms_inner_with(cfg, abs_map_wide(cfg).boxed(), abs_map(cfg).boxed(), text(cfg.ascii, 25), text(cfg.ascii, 25)),
        1 => sms_inner_with(cfg, abs_map(cfg).boxed(), abs_map_wide(cfg).boxed(), text(cfg.ascii, 25), text(cfg.ascii, 25)),
      ]
      .boxed()
    } else {
      plain
    };
    alts.push((
      4,
      (big, 0u8..7u8, leaf(small), repls_for(cfg, 2), 0u8..5u8)
        .prop_map(move |(s, wrap, sib, (pool, abs), how)| match wrap {
          0 | 1 => s,
          2 if cfg.cached => Spec::Cached(Box::new(s)),
          3 => Spec::Concat { how, children: vec![sib, s] },
          4 => Spec::Concat { how, children: vec![s.clone(), sib, s] },
          5 if cfg.replace => {
            let t = model_text(&s);
            let repls = concretize_repls(&t, &pool, &abs, cfg.huge_positions);
            Spec::Replace { inner: Box::new(s), repls }
          }
          _ => Spec::Concat { how, children: vec![s, sib] },
        })
        .boxed(),
    ));
  }
  if cfg.replace {
    alts.push((
      2,
      (vec(leaf(GenCfg { max_tokens: cfg.max_tokens.max(30), ..cfg }), 1..=2), vec(any::<u16>(), 8..=40), vec(abs_repl(cfg), 17..=80))
        .prop_map(move |(leaves, pool, abs)| {
          let base = if leaves.len() == 1 { leaves.into_iter().next().unwrap() } else { Spec::Concat { how: 0, children: leaves } };
          let t = model_text(&base);
          let repls = concretize_repls(&t, &pool, &abs, cfg.huge_positions);
          Spec::Replace { inner: Box::new(base), repls }
        })
        .boxed(),
    ));
  }
  // bare, or beneath 1-2 further layers (ReplaceSource cutting into it, CachedSource, Box, ConcatSource with a sibling)
  (prop::strategy::Union::new_weighted(alts), vec(layer(cfg), 0..=2)).prop_map(move |(s, layers)| normalize(wrap_layers(cfg, s, layers), cfg)).boxed()
}

/// A chain of 4-8 layers over one leaf or a two-leaf ConcatSource; every layer is a ReplaceSource (0-3 replacements
/// concretised against the text below it), a CachedSource, a Box, or a ConcatSource holding the chain alone, before,
/// behind or between small sibling leaves.
pub fn tower(cfg: GenCfg) -> BoxedStrategy<Spec> {
  let small = GenCfg { max_tokens: cfg.max_tokens.min(5), ..cfg };
  (vec(leaf(small), 1..=2), vec(layer(cfg), 4..=8))
    .prop_map(move |(base, layers)| {
      let s = if base.len() == 1 { base.into_iter().next().unwrap() } else { Spec::Concat { how: 0, children: base } };
      normalize(wrap_layers(cfg, s, layers), cfg)
    })
    .boxed()
}

type Layer = (u8, (Vec<u16>, Vec<AbsRepl>), Spec, u8);

fn layer(cfg: GenCfg) -> impl Strategy<Value = Layer> {
  let small = GenCfg { max_tokens: cfg.max_tokens.min(5), ..cfg };
  (0u8..9u8, repls_for(cfg, 3), leaf(small), 0u8..5u8)
}

fn wrap_layers(cfg: GenCfg, mut s: Spec, layers: Vec<Layer>) -> Spec {
  for (kind, (pool, abs), sib, how) in layers {
    s = match kind {
      0 | 1 | 2 if cfg.replace => {
        let t = model_text(&s);
        let repls = concretize_repls(&t, &pool, &abs, cfg.huge_positions);
        Spec::Replace { inner: Box::new(s), repls }
      }
      3 | 4 if cfg.cached => Spec::Cached(Box::new(s)),
      5 => Spec::Boxed(Box::new(s)),
      6 => Spec::Concat { how, children: vec![s, sib] },
      7 => Spec::Concat { how, children: vec![sib, s] },
      _ => Spec::Concat { how, children: vec![s] },
    };
  }
  s
}

pub fn tree_rec(cfg: GenCfg) -> BoxedStrategy<Spec> {
  let l = leaf(cfg);
  l.prop_recursive(cfg.depth, 16, cfg.max_children as u32, move |inner| {
    let mut alts: Vec<(u32, BoxedStrategy<Spec>)> = vec![(
      4,
      (0u8..5u8, vec(inner.clone(), 0..=cfg.max_children), 0u8..12u8)
        .prop_map(|(how, mut children, twin)| {
          // now and then two children are the very same source (byte-identical text, same names)
          if twin == 0 && !children.is_empty() {
            let c = children[0].clone();
            children.push(c);
          }
          Spec::Concat { how, children }
        })
        .boxed(),
    )];
    if cfg.replace {
      alts.push((
        4,
        (inner.clone(), repls_for(cfg, 4))
          .prop_map(move |(i, (pool, abs))| {
            let t = model_text(&i);
            let repls = concretize_repls(&t, &pool, &abs, cfg.huge_positions);
            Spec::Replace { inner: Box::new(i), repls }
          })
          .boxed(),
      ));
    }
    if cfg.cached {
      alts.push((2, inner.clone().prop_map(|i| Spec::Cached(Box::new(i))).boxed()));
    }
    alts.push((1, inner.clone().prop_map(|i| Spec::Boxed(Box::new(i))).boxed()));
    prop::strategy::Union::new_weighted(alts).boxed()
  })
  .prop_map(move |s| normalize(s, cfg))
  .boxed()
}

/// Post-pass establishing the preconditions shared by the position
/// properties: (1) distinct contents get distinct file names (a name may repeat
/// only with identical content); (2) optionally no CachedSource beneath a
/// ReplaceSource.
pub fn normalize(mut s: Spec, cfg: GenCfg) -> Spec {
  if !cfg.cached_under_replace {
    s = strip_cached_under_replace(s, false);
  }
  // the file-name precondition belongs to the attribution oracles; wild trees (text, totality and
  // memory-safety oracles only) keep whatever names they have, duplicates with different contents included
  if !cfg.wild {
    let mut seen: Vec<(String, Option<String>)> = vec![];
    fix_names(&mut s, &mut seen);
  }
  s
}

fn strip_cached_under_replace(s: Spec, under: bool) -> Spec {
  match s {
    Spec::Cached(i) => {
      let i = strip_cached_under_replace(*i, under);
      if under {
        Spec::Boxed(Box::new(i))
      } else {
        Spec::Cached(Box::new(i))
      }
    }
    Spec::Boxed(i) => Spec::Boxed(Box::new(strip_cached_under_replace(*i, under))),
    Spec::Replace { inner, repls } => Spec::Replace {
      inner: Box::new(strip_cached_under_replace(*inner, true)),
      repls,
    },
    Spec::Concat { how, children } => Spec::Concat {
      how,
      children: children.into_iter().map(|c| strip_cached_under_replace(c, under)).collect(),
    },
    other => other,
  }
}

/// Pick the first candidate raw name whose announced form is either unseen or
/// already carries the same content.
fn claim(
  seen: &mut Vec<(String, Option<String>)>,
  content: Option<&str>,
  mk: &dyn Fn(usize) -> (String, String),
) -> String {
  let content = content.filter(|c| !c.is_empty()).map(|c| c.to_string());
  let mut n = 0;
  loop {
    let (raw, announced) = mk(n);
    match seen.iter().find(|x| x.0 == announced) {
      None => {
        seen.push((announced, content));
        return raw;
      }
      Some(x) if x.1 == content => return raw,
      Some(_) => n += 1,
    }
  }
}

fn alt(n: usize, raw: &str) -> String {
  if n == 0 {
    raw.to_string()
  } else {
    format!("v{n}_{raw}")
  }
}

fn fix_map_names(m: &mut MapSpec, seen: &mut Vec<(String, Option<String>)>, skip: Option<usize>) {
  for i in 0..m.sources.len() {
    if Some(i) == skip {
      continue;
    }
    let raw = m.sources[i].clone();
    let root = m.root.clone();
    let content = m.contents.get(i).cloned();
    m.sources[i] = claim(seen, content.as_deref(), &|n| {
      let r = alt(n, &raw);
      let a = root_join(root.as_deref(), &r);
      (r, a)
    });
  }
}

fn fix_names(s: &mut Spec, seen: &mut Vec<(String, Option<String>)>) {
  match s {
    Spec::Orig { text, name } => {
      let raw = name.clone();
      *name = claim(seen, Some(text), &|n| (alt(n, &raw), alt(n, &raw)));
    }
    Spec::Sms { map, .. } => fix_map_names(map, seen, None),
    Spec::SmsInner { name, map, original, inner, .. } => {
      let w = map.sources.iter().position(|x| x == name);
      let content: Option<String> =
        original.clone().or_else(|| w.and_then(|w| map.contents.get(w).cloned()));
      let raw = name.clone();
      let got = claim(seen, content.as_deref(), &|n| (alt(n, &raw), alt(n, &raw)));
      if got != *name {
        if let Some(w) = w {
          map.sources[w] = got.clone();
        }
        *name = got;
      }
      fix_map_names(map, seen, w);
      fix_map_names(inner, seen, None);
    }
    Spec::Concat { children, .. } => children.iter_mut().for_each(|c| fix_names(c, seen)),
    Spec::Replace { inner, .. } | Spec::Cached(inner) | Spec::Boxed(inner) => fix_names(inner, seen),
    _ => {}
  }
}

/// all (file name, content) pairs a tree may announce
pub fn files_of(s: &Spec) -> Vec<(String, Option<String>)> {
  let mut out = vec![];
  s.walk(
    &mut |n, _| match n {
      Spec::Orig { text, name } => out.push((name.clone(), Some(text.clone()))),
      Spec::Sms { map, .. } => {
        for (i, x) in map.sources.iter().enumerate() {
          out.push((root_join(map.root.as_deref(), x), map.contents.get(i).cloned()));
        }
      }
      Spec::SmsInner { name, map, original, inner, .. } => {
        for (i, x) in map.sources.iter().enumerate() {
          let c = if x == name {
            original.clone().or(map.contents.get(i).cloned())
          } else {
            map.contents.get(i).cloned()
          };
          out.push((root_join(map.root.as_deref(), x), c));
        }
        for (i, x) in inner.sources.iter().enumerate() {
          out.push((root_join(inner.root.as_deref(), x), inner.contents.get(i).cloned()));
        }
      }
      _ => {}
    },
    0,
  );
  out
}

/// Post-pass: SourceMapSource leaves (no inner map) get a map that is *longer than their text* - one or two more
/// mapped segments on lines after the last line of the text, at columns before, at and behind the end column - as a map
/// made for an earlier version of the file would have.  Segments stay sorted, indices stay inside the tables.
/// Returns the number of leaves changed.
pub fn overlong(s: &mut Spec, sels: &[u16], next: &mut usize) -> usize {
  match s {
    Spec::Sms { text, map, .. } => {
      if map.sources.is_empty() {
        return 0;
      }
      let sel = sels[*next % sels.len()] as u32;
      *next += 1;
      if sel % 4 == 3 {
        return 0;
      }
      let (_, end) = positions(text);
      let last = map.segs.last().map(|g| g.line).unwrap_or(0).max(end.0);
      let mut line = last + 1 + (sel >> 2) % 2;
      for k in 0..(1 + (sel >> 3) % 2) {
        let col = match (sel >> (4 + 2 * k)) % 4 {
          0 => 0,
          1 => end.1.saturating_sub(1),
          2 => end.1,
          _ => end.1 + 2,
        };
        let orig = Orig { src: (sel >> 8) % map.sources.len() as u32, line: 1 + (sel >> 10) % 3, col: (sel >> 12) % 4, name: None };
        map.segs.push(Seg { line, col, orig: Some(orig) });
        line += 1;
      }
      1
    }
    Spec::Concat { children, .. } => children.iter_mut().map(|c| overlong(c, sels, next)).sum(),
    Spec::Replace { inner, .. } => overlong(inner, sels, next),
    Spec::Cached(inner) | Spec::Boxed(inner) => overlong(inner, sels, next),
    _ => 0,
  }
}
