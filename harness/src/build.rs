//! Spec -> real objects.  Every call builds fresh objects (no shared caches).

use rspack_sources::{
  BoxSource, CachedSource, ConcatSource, OriginalSource, RawBufferSource, RawSource,
  RawStringSource, ReplaceSource, ReplacementEnforce, SourceExt, SourceMap, SourceMapSource,
  SourceMapSourceOptions, WithoutOriginalOptions,
};

use crate::model::vlq;
use crate::spec::{MapSpec, Repl, Spec};

pub fn enforce_of(e: u8) -> ReplacementEnforce {
  match e {
    0 => ReplacementEnforce::Pre,
    1 => ReplacementEnforce::Normal,
    _ => ReplacementEnforce::Post,
  }
}

/// MapSpec -> SourceMap; the mappings string is written by the harness's own
/// encoder, every segment as given.
/// A SourceMap value for the spec.  One map in three (chosen by a pure function of the content, so every build of a Spec
/// takes the same route) is *parsed* - `SourceMap::from_json` of a document written by serde_json, the way maps written
/// by other tools arrive - instead of being assembled with `SourceMap::new` and the setters.
pub fn source_map(m: &MapSpec) -> SourceMap {
  let route = m.segs.len() * 7 + m.sources.len() * 3 + m.names.len() + m.root.as_ref().map_or(0, |r| 1 + r.len());
  if route % 3 == 0 {
    let mut doc = serde_json::Map::new();
    doc.insert("version".into(), 3.into());
    if let Some(f) = &m.file {
      doc.insert("file".into(), f.clone().into());
    }
    if let Some(r) = &m.root {
      doc.insert("sourceRoot".into(), r.clone().into());
    }
    doc.insert("sources".into(), m.sources.clone().into());
    if !m.contents.is_empty() {
      doc.insert("sourcesContent".into(), m.contents.clone().into());
    }
    doc.insert("names".into(), m.names.clone().into());
    doc.insert("mappings".into(), vlq::encode(&m.segs).into());
    if let Some(d) = &m.debug_id {
      doc.insert("debugId".into(), d.clone().into());
    }
    let text = serde_json::Value::Object(doc).to_string();
    return SourceMap::from_json(&text).expect("a version-3 document written by serde_json parses");
  }
  let mut sm = SourceMap::new(
    vlq::encode(&m.segs),
    m.sources.clone(),
    m.contents.clone(),
    m.names.clone(),
  );
  sm.set_source_root(m.root.clone());
  sm.set_file(m.file.clone());
  sm.set_debug_id(m.debug_id.clone());
  sm
}

pub fn apply_repl<T: rspack_sources::Source>(r: &mut ReplaceSource<T>, p: &Repl) {
  // use every public spelling of the mutators
  match (p.start == p.end, p.enforce) {
    (true, 1) => r.insert(p.start, &p.content, p.name.as_deref()),
    (false, 1) => r.replace(p.start, p.end, &p.content, p.name.as_deref()),
    (true, e) => r.insert_with_enforce(p.start, &p.content, p.name.as_deref(), enforce_of(e)),
    (false, e) => {
      r.replace_with_enforce(p.start, p.end, &p.content, p.name.as_deref(), enforce_of(e))
    }
  }
}

/// `add` with the concrete leaf type where there is one (how == 1: everything is handed over typed);
/// `prebuilt` is used for the node kinds that only exist boxed in this harness
fn add_typed(c: &mut ConcatSource, x: &Spec, prebuilt: BoxSource) {
  match x {
    Spec::Raw(t) => c.add(raw_leaf(t)),
    Spec::RawBytes(b) => c.add(raw_bytes_leaf(b)),
    Spec::RawStr(t) => c.add(raw_str_leaf(t)),
    Spec::RawBuf(b) => c.add(raw_buf_leaf(b)),
    Spec::Orig { text, name } => c.add(OriginalSource::new(text.clone(), name.clone())),
    _ => c.add(prebuilt),
  }
}

/// `ConcatSource::new` over typed (unboxed) leaf items, when all children are leaves of one kind
fn typed_new(children: &[Spec]) -> Option<ConcatSource> {
  if children.is_empty() {
    return None;
  }
  if children.iter().all(|c| matches!(c, Spec::Raw(_) | Spec::RawBytes(_))) {
    return Some(ConcatSource::new(
      children
        .iter()
        .map(|c| match c {
          Spec::Raw(t) => raw_leaf(t),
          Spec::RawBytes(b) => raw_bytes_leaf(b),
          _ => unreachable!(),
        })
        .collect::<Vec<RawSource>>(),
    ));
  }
  if children.iter().all(|c| matches!(c, Spec::Orig { .. })) {
    return Some(ConcatSource::new(
      children
        .iter()
        .map(|c| match c {
          Spec::Orig { text, name } => OriginalSource::new(text.clone(), name.clone()),
          _ => unreachable!(),
        })
        .collect::<Vec<OriginalSource>>(),
    ));
  }
  None
}

/// how == 4: `new` over the maximal prefix of raw leaves as typed items (possibly none), every further
/// child handed to `add` typed (nested concats are flattened by `add`)
fn raw_prefix_len(children: &[Spec]) -> usize {
  children.iter().take_while(|c| matches!(c, Spec::Raw(_) | Spec::RawBytes(_))).count()
}

fn new_over_raw_prefix(children: &[Spec]) -> ConcatSource {
  ConcatSource::new(
    children[..raw_prefix_len(children)]
      .iter()
      .map(|c| match c {
        Spec::Raw(t) => raw_leaf(t),
        Spec::RawBytes(b) => raw_bytes_leaf(b),
        _ => unreachable!(),
      })
      .collect::<Vec<RawSource>>(),
  )
}

pub fn build_concat(how: u8, children: &[Spec]) -> ConcatSource {
  if how == 3 {
    if let Some(c) = typed_new(children) {
      return c;
    }
  }
  if how == 4 {
    let mut c = new_over_raw_prefix(children);
    for x in &children[raw_prefix_len(children)..] {
      match x {
        Spec::Concat { how: h2, children: ch2 } => c.add(build_concat(*h2, ch2)),
        _ => add_typed(&mut c, x, build(x)),
      }
    }
    return c;
  }
  match how {
    // `new` over *typed* ConcatSource items (flattened by `new` itself) when every child is one
    3 if !children.is_empty() && children.iter().all(|c| matches!(c, Spec::Concat { .. })) => ConcatSource::new(
      children
        .iter()
        .map(|c| match c {
          Spec::Concat { how, children } => build_concat(*how, children),
          _ => unreachable!(),
        })
        .collect::<Vec<ConcatSource>>(),
    ),
    0 | 3 => ConcatSource::new(children.iter().map(build).collect::<Vec<BoxSource>>()),
    _ => {
      let mut c = ConcatSource::default();
      for x in children {
        match x {
          Spec::Concat { how: h2, children: ch2 } if how == 1 => c.add(build_concat(*h2, ch2)),
          _ if how == 1 => add_typed(&mut c, x, build(x)),
          _ => c.add(build(x)),
        }
      }
      c
    }
  }
}

pub fn build_replace(inner: &Spec, repls: &[Repl]) -> ReplaceSource<BoxSource> {
  let mut r = ReplaceSource::new(build(inner));
  for p in repls {
    apply_repl(&mut r, p);
  }
  r
}

/// a `&'static str` with this content: interned in a process-wide table (one allocation per distinct
/// text, reachable from a static, so the leak checker of the sanitizer builds does not count it)
pub fn interned(t: &str) -> &'static str {
  use std::collections::HashSet;
  use std::sync::{Mutex, OnceLock};
  static TABLE: OnceLock<Mutex<HashSet<&'static str>>> = OnceLock::new();
  let mut g = TABLE.get_or_init(Default::default).lock().unwrap();
  if let Some(s) = g.get(t) {
    return s;
  }
  // a text that is the beginning of one interned earlier is handed out as a slice of that one: two
  // `from_static` leaves may then start at the same address and differ in length only
  if let Some(longer) = g.iter().find(|s| s.len() > t.len() && s.starts_with(t)).copied() {
    let s: &'static str = &longer[..t.len()];
    g.insert(s);
    return s;
  }
  // the text starts 0-7 bytes into its allocation (a pure function of the content): `&'static str`s in a real binary
  // sit at arbitrary addresses, heap strings at aligned ones
  let pad = t.bytes().fold(t.len(), |a, b| a.wrapping_mul(31).wrapping_add(b as usize)) % 8;
  let mut buf = String::with_capacity(pad + t.len());
  buf.push_str(&"\u{1}".repeat(pad));
  buf.push_str(t);
  let leaked: &'static str = Box::leak(buf.into_boxed_str());
  let s: &'static str = &leaked[pad..];
  g.insert(s);
  s
}

thread_local! {
  static RESPELL: std::cell::Cell<u8> = const { std::cell::Cell::new(0) };
}

/// Run `f` with every raw leaf built through another public constructor spelling than `build` normally
/// picks for it (shift 1 or 2 in the cycle From<String> -> From<&str> -> from_static): the values built are equal
/// to the normally spelled ones by content, only where their text lives differs.
pub fn with_respell<R>(shift: u8, f: impl FnOnce() -> R) -> R {
  struct Reset(u8);
  impl Drop for Reset {
    fn drop(&mut self) {
      RESPELL.with(|c| c.set(self.0));
    }
  }
  let _reset = Reset(RESPELL.with(|c| c.replace(shift % 3)));
  f()
}

/// which public constructor spelling a raw leaf is built with: a pure function of its content, so every
/// build of a Spec makes the same constructor calls (0: From<String> / From<Vec<u8>>, 1: From<&str> /
/// From<&[u8]>, 2: from_static; `with_respell` rotates the choice)
/// longest text handed to `from_static` (the interning table never shrinks; long texts are one leaf in a hundred)
const STATIC_MAX: usize = 9000;

fn spelling(len: usize, first: u8) -> u8 {
  // (by the first byte only, so that a text and its prefixes are spelled the same way)
  let _ = len;
  (first % 3 + RESPELL.with(|c| c.get())) % 3
}

fn raw_leaf(t: &str) -> RawSource {
  match spelling(t.len(), t.as_bytes().first().copied().unwrap_or(0)) {
    1 => RawSource::from(t),
    2 if t.len() <= STATIC_MAX => RawSource::from_static(interned(t)),
    _ => RawSource::from(t.to_string()),
  }
}

fn raw_str_leaf(t: &str) -> RawStringSource {
  match spelling(t.len(), t.as_bytes().first().copied().unwrap_or(0)) {
    1 => RawStringSource::from(t),
    2 if t.len() <= STATIC_MAX => RawStringSource::from_static(interned(t)),
    _ => RawStringSource::from(t.to_string()),
  }
}

fn raw_bytes_leaf(b: &[u8]) -> RawSource {
  match spelling(b.len(), b.first().copied().unwrap_or(0)) {
    1 => RawSource::from(b),
    _ => RawSource::from(b.to_vec()),
  }
}

fn raw_buf_leaf(b: &[u8]) -> RawBufferSource {
  match spelling(b.len(), b.first().copied().unwrap_or(0)) {
    1 => RawBufferSource::from(b),
    _ => RawBufferSource::from(b.to_vec()),
  }
}

pub fn build(s: &Spec) -> BoxSource {
  match s {
    Spec::Raw(t) => raw_leaf(t).boxed(),
    Spec::RawBytes(b) => raw_bytes_leaf(b).boxed(),
    Spec::RawStr(t) => raw_str_leaf(t).boxed(),
    Spec::RawBuf(b) => raw_buf_leaf(b).boxed(),
    Spec::Orig { text, name } => OriginalSource::new(text.clone(), name.clone()).boxed(),
    Spec::Sms { text, name, map, full: None } => SourceMapSource::new(WithoutOriginalOptions {
      value: text.clone(),
      name: name.clone(),
      source_map: source_map(map),
    })
    .boxed(),
    Spec::Sms { text, name, map, full: Some((original, remove)) } => SourceMapSource::new(SourceMapSourceOptions {
      value: text.clone(),
      name: name.clone(),
      source_map: source_map(map),
      original_source: original.clone(),
      inner_source_map: None,
      remove_original_source: *remove,
    })
    .boxed(),
    Spec::SmsInner {
      text,
      name,
      map,
      original,
      inner,
      remove,
    } => SourceMapSource::new(SourceMapSourceOptions {
      value: text.clone(),
      name: name.clone(),
      source_map: source_map(map),
      original_source: original.clone(),
      inner_source_map: Some(source_map(inner)),
      remove_original_source: *remove,
    })
    .boxed(),
    Spec::Concat { how, children } => build_concat(*how, children).boxed(),
    Spec::Replace { inner, repls } => build_replace(inner, repls).boxed(),
    Spec::Cached(inner) => CachedSource::new(build(inner)).boxed(),
    Spec::Boxed(inner) => build(inner).boxed(),
    Spec::Custom { text } => crate::custom::CustomSource { text: text.clone(), map: None }.boxed(),
  }
}

/// `build_concat` with `observe` called on every ConcatSource under construction after each `add`
/// (the same constructor calls as `build_concat`, in the same order)
pub fn build_concat_observed(how: u8, children: &[Spec], observe: &mut dyn FnMut(&dyn rspack_sources::Source)) -> ConcatSource {
  build_concat_observed_with(how, children, observe, false)
}

fn build_concat_observed_with(how: u8, children: &[Spec], observe: &mut dyn FnMut(&dyn rspack_sources::Source), stale: bool) -> ConcatSource {
  if how == 3 {
    if let Some(c) = typed_new(children) {
      return c;
    }
  }
  if how == 4 {
    let mut c = new_over_raw_prefix(children);
    for x in &children[raw_prefix_len(children)..] {
      match x {
        Spec::Concat { how: h2, children: ch2 } => {
          let inner = build_concat_observed_with(*h2, ch2, observe, stale);
          c.add(inner)
        }
        _ => {
          let b = build_observed_with(x, observe, stale);
          add_typed(&mut c, x, b)
        }
      }
      if !stale {
        observe(&c);
      }
    }
    return c;
  }
  match how {
    3 if !children.is_empty() && children.iter().all(|c| matches!(c, Spec::Concat { .. })) => {
      let items: Vec<ConcatSource> = children
        .iter()
        .map(|c| match c {
          Spec::Concat { how, children } => build_concat_observed_with(*how, children, observe, stale),
          _ => unreachable!(),
        })
        .collect();
      ConcatSource::new(items)
    }
    0 | 3 => {
      let items: Vec<BoxSource> = children.iter().map(|c| build_observed_with(c, observe, stale)).collect();
      ConcatSource::new(items)
    }
    _ => {
      let mut c = ConcatSource::default();
      for x in children {
        match x {
          Spec::Concat { how: h2, children: ch2 } if how == 1 => {
            let inner = build_concat_observed_with(*h2, ch2, observe, stale);
            c.add(inner)
          }
          _ if how == 1 => {
            let b = build_observed_with(x, observe, stale);
            add_typed(&mut c, x, b)
          }
          _ => c.add(build_observed_with(x, observe, stale)),
        }
        if !stale {
          observe(&c);
        }
      }
      c
    }
  }
}

/// Like `build`, but `observe` is called on every ReplaceSource / ConcatSource under
/// construction after each mutating call (replace / insert / add), i.e. the tree is built
/// through a history of the form mutate, observe, mutate, observe, ...
pub fn build_observed(s: &Spec, observe: &mut dyn FnMut(&dyn rspack_sources::Source)) -> BoxSource {
  build_observed_with(s, observe, false)
}

/// Like `build_observed`, but the LAST mutating call of every ReplaceSource is not followed by an
/// observer and ConcatSources are not observed (that would observe their finished children): each
/// ReplaceSource with >= 2 replacements ends up observed, then mutated again, i.e. its lazily
/// computed order is stale when the tree is handed out.  Same constructor calls as `build`.
pub fn build_stale(s: &Spec, observe: &mut dyn FnMut(&dyn rspack_sources::Source)) -> BoxSource {
  build_observed_with(s, observe, true)
}

fn build_observed_with(s: &Spec, observe: &mut dyn FnMut(&dyn rspack_sources::Source), stale: bool) -> BoxSource {
  match s {
    Spec::Concat { how, children } => build_concat_observed_with(*how, children, observe, stale).boxed(),
    Spec::Replace { inner, repls } => {
      let mut r = ReplaceSource::new(build_observed_with(inner, observe, stale));
      if !stale {
        observe(&r);
      }
      for (i, p) in repls.iter().enumerate() {
        apply_repl(&mut r, p);
        if !stale || i + 1 < repls.len() {
          observe(&r);
        }
      }
      r.boxed()
    }
    Spec::Cached(inner) => CachedSource::new(build_observed_with(inner, observe, stale)).boxed(),
    Spec::Boxed(inner) => build_observed_with(inner, observe, stale).boxed(),
    leaf => build(leaf),
  }
}

/// Does an add-typed ConcatSource (style 1) that `build_shared` reaches - through ReplaceSource / CachedSource / Box layers
/// and style-1 ConcatSources only; every other construction style is built exactly as `build` does - hold the same
/// ConcatSource child twice, or repeat its first half?
pub fn has_shareable_twins(s: &Spec) -> bool {
  match s {
    Spec::Concat { how: 1, children } => {
      let n = children.len();
      (n >= 2 && n % 2 == 0 && children[..n / 2] == children[n / 2..])
        || children.iter().enumerate().any(|(i, x)| matches!(x, Spec::Concat { .. }) && children[..i].contains(x))
        || children.iter().any(|x| !matches!(x, Spec::Concat { how, .. } if *how != 1) && has_shareable_twins(x))
    }
    Spec::Replace { inner, .. } => has_shareable_twins(inner),
    Spec::Cached(inner) | Spec::Boxed(inner) => has_shareable_twins(inner),
    _ => false,
  }
}

/// `build`, except that in an add-typed ConcatSource (style 1) a ConcatSource child equal to an earlier sibling is handed
/// over as a *clone of the object built for that sibling*, and a child list whose second half repeats the first is built
/// as `c.add(c.clone())`: the flattening `add` then stores the very same reference-counted children at two positions.
/// The calls differ from `build`'s, the value does not.
pub fn build_shared(s: &Spec) -> BoxSource {
  match s {
    Spec::Concat { how: 1, children } => build_concat_shared(children).boxed(),
    Spec::Replace { inner, repls } => {
      let mut r = ReplaceSource::new(build_shared(inner));
      for p in repls {
        apply_repl(&mut r, p);
      }
      r.boxed()
    }
    Spec::Cached(inner) => CachedSource::new(build_shared(inner)).boxed(),
    Spec::Boxed(inner) => build_shared(inner).boxed(),
    leaf => build(leaf),
  }
}

fn build_concat_shared(children: &[Spec]) -> ConcatSource {
  let n = children.len();
  let mut c = ConcatSource::default();
  let half = n >= 2 && n % 2 == 0 && children[..n / 2] == children[n / 2..];
  let upto = if half { n / 2 } else { n };
  let mut typed: Vec<(usize, ConcatSource)> = vec![];
  for (i, x) in children[..upto].iter().enumerate() {
    match x {
      Spec::Concat { how: h2, children: ch2 } => {
        if let Some((_, t)) = typed.iter().find(|(j, _)| children[*j] == *x) {
          c.add(t.clone());
        } else {
          let t = if *h2 == 1 { build_concat_shared(ch2) } else { build_concat(*h2, ch2) };
          c.add(t.clone());
          typed.push((i, t));
        }
      }
      _ => add_typed(&mut c, x, build_shared(x)),
    }
  }
  if half {
    let twin = c.clone();
    c.add(twin);
  }
  c
}
