//! Observers: chunk-stream collector, per-position attribution from a stream
//! and from a SourceMap (through the harness's own decoder), panic capture.

use std::cell::RefCell;
use std::collections::BTreeMap;
use std::panic::{catch_unwind, AssertUnwindSafe};

use rspack_sources::stream_chunks::StreamChunks;
use rspack_sources::{MapOptions, Mapping, Rope, SourceMap};

use crate::model::vlq;
use crate::spec::{Orig, Seg};

pub fn opts(columns: bool, final_source: bool) -> MapOptions {
  // the public spellings where they exist (final_source can only be set through the hook)
  match (columns, final_source) {
    (true, false) => MapOptions::default(),
    (false, false) => MapOptions::new(false),
    _ => rspack_sources::verif::map_options(columns, final_source),
  }
}

#[derive(Clone, Debug, PartialEq)]
pub struct Chunk {
  pub text: Option<String>,
  pub line: u32,
  pub col: u32,
  pub orig: Option<Orig>,
}

#[derive(Clone, Debug, Default)]
pub struct Stream {
  pub chunks: Vec<Chunk>,
  /// (index, name, content) in announcement order
  pub sources: Vec<(u32, String, Option<String>)>,
  /// (index, name) in announcement order
  pub names: Vec<(u32, String)>,
  pub info: (u32, u32),
  /// well-formedness problems of the announcement protocol (C11)
  pub wf_errors: Vec<String>,
}

/// Stream `src` once.  The callbacks *keep* every borrowed chunk, name and
/// content until `stream_chunks` has returned and only then read them (this is
/// what the `'a` of the signature allows a caller to do; C19).
pub fn stream<S: StreamChunks + ?Sized>(src: &S, options: &MapOptions) -> Stream {
  let chunks: RefCell<Vec<(Option<Rope<'_>>, Mapping)>> = RefCell::new(Vec::new());
  let sources: RefCell<Vec<(u32, std::borrow::Cow<'_, str>, Option<Rope<'_>>)>> =
    RefCell::new(Vec::new());
  let names: RefCell<Vec<(u32, std::borrow::Cow<'_, str>)>> = RefCell::new(Vec::new());
  let errs: RefCell<Vec<String>> = RefCell::new(Vec::new());
  let info = src.stream_chunks(
    options,
    &mut |c, m| {
      if let Some(o) = &m.original {
        if !sources.borrow().iter().any(|s| s.0 == o.source_index) {
          errs
            .borrow_mut()
            .push(format!("source index {} used before it was announced", o.source_index));
        }
        if let Some(n) = o.name_index {
          if !names.borrow().iter().any(|s| s.0 == n) {
            errs
              .borrow_mut()
              .push(format!("name index {} used before it was announced", n));
          }
        }
      }
      chunks.borrow_mut().push((c, m));
    },
    &mut |i, s, c| sources.borrow_mut().push((i, s, c)),
    &mut |i, n| names.borrow_mut().push((i, n)),
  );
  // only now read the borrowed data
  let chunks: Vec<Chunk> = chunks
    .into_inner()
    .into_iter()
    .map(|(c, m)| Chunk {
      text: c.map(|r| r.to_string()),
      line: m.generated_line,
      col: m.generated_column,
      orig: m.original.map(|o| Orig {
        src: o.source_index,
        line: o.original_line,
        col: o.original_column,
        name: o.name_index,
      }),
    })
    .collect();
  let sources: Vec<(u32, String, Option<String>)> = sources
    .into_inner()
    .into_iter()
    .map(|(i, s, c)| (i, s.to_string(), c.map(|r| r.to_string())))
    .collect();
  let names: Vec<(u32, String)> = names
    .into_inner()
    .into_iter()
    .map(|(i, n)| (i, n.to_string()))
    .collect();
  let mut errs = errs.into_inner();
  // borrowed data read after the call returned must still be the text it was (the binary's allocator overwrites
  // freed memory with bytes that are not UTF-8)
  if chunks.iter().any(|c: &Chunk| c.text.as_ref().is_some_and(|t| std::str::from_utf8(t.as_bytes()).is_err()))
    || sources.iter().any(|s| std::str::from_utf8(s.1.as_bytes()).is_err() || s.2.as_ref().is_some_and(|t| std::str::from_utf8(t.as_bytes()).is_err()))
    || names.iter().any(|n| std::str::from_utf8(n.1.as_bytes()).is_err())
  {
    errs.push("a chunk, source name, content or name read after stream_chunks returned is not UTF-8 any more: the borrow outlived its allocation".into());
  }
  // announced indices are dense from zero
  for (what, idx) in [
    ("source", sources.iter().map(|s| s.0).collect::<Vec<_>>()),
    ("name", names.iter().map(|s| s.0).collect::<Vec<_>>()),
  ] {
    let mut set: Vec<u32> = idx.clone();
    set.sort_unstable();
    set.dedup();
    if set.iter().enumerate().any(|(k, v)| k as u32 != *v) {
      errs.push(format!("announced {what} indices are not dense from zero: {idx:?}"));
    }
  }
  Stream {
    chunks,
    sources,
    names,
    info: (info.generated_line, info.generated_column),
    wf_errors: errs,
  }
}

/// (file, line, column, name)
pub type Attr = Option<(String, u32, u32, Option<String>)>;
/// (file, content, line, column, name)
pub type AttrFull = Option<(String, Option<String>, u32, u32, Option<String>)>;

pub fn strip(a: &AttrFull) -> Attr {
  a.clone().map(|(f, _, l, c, n)| (f, l, c, n))
}
pub fn line_only(a: &Attr) -> Option<(String, u32)> {
  a.clone().map(|(f, l, _, _)| (f, l))
}
pub fn line_only_full(a: &AttrFull) -> Option<(String, Option<String>, u32)> {
  a.clone().map(|(f, c, l, _, _)| (f, c, l))
}

/// True (line, column) of every byte of `text` (lines 1-based, columns
/// 0-based, in bytes) and the position just after the last byte.
pub fn positions(text: &str) -> (Vec<(u32, u32)>, (u32, u32)) {
  let mut v = Vec::with_capacity(text.len());
  let (mut l, mut c) = (1u32, 0u32);
  for b in text.bytes() {
    v.push((l, c));
    if b == b'\n' {
      l += 1;
      c = 0;
    } else {
      c += 1;
    }
  }
  (v, (l, c))
}

impl Stream {
  pub fn text(&self) -> String {
    self.chunks.iter().map(|c| c.text.as_deref().unwrap_or("")).collect()
  }
  pub fn source_of(&self, idx: u32) -> Option<&(u32, String, Option<String>)> {
    self.sources.iter().rev().find(|x| x.0 == idx)
  }
  pub fn name_of(&self, idx: u32) -> Option<&str> {
    self.names.iter().rev().find(|x| x.0 == idx).map(|x| x.1.as_str())
  }
  pub fn attr_of(&self, o: &Option<Orig>) -> AttrFull {
    o.map(|o| {
      let (f, c) = match self.source_of(o.src) {
        Some(s) => (s.1.clone(), s.2.clone().filter(|c| !c.is_empty())),
        None => (format!("?src{}", o.src), None),
      };
      (
        f,
        c,
        o.line,
        o.col,
        o.name.map(|n| self.name_of(n).map(|s| s.to_string()).unwrap_or(format!("?name{n}"))),
      )
    })
  }
  /// reassembled text and the attribution of every byte (that of its chunk)
  pub fn attr(&self) -> (String, Vec<AttrFull>) {
    let mut text = String::new();
    let mut at = Vec::new();
    for ch in &self.chunks {
      let t = ch.text.as_deref().unwrap_or("");
      let a = self.attr_of(&ch.orig);
      for _ in 0..t.len() {
        at.push(a.clone());
      }
      text.push_str(t);
    }
    (text, at)
  }
  /// columns=false view: per output line, (file, content, line) of the first
  /// mapped non-empty chunk that starts on that line
  pub fn line_attr(&self) -> BTreeMap<u32, (String, Option<String>, u32)> {
    let mut out = BTreeMap::new();
    for ch in &self.chunks {
      if ch.text.as_deref().unwrap_or("").is_empty() {
        continue;
      }
      if let Some(a) = self.attr_of(&ch.orig) {
        out.entry(ch.line).or_insert((a.0, a.1, a.2));
      }
    }
    out
  }
  pub fn any_mapped(&self) -> bool {
    self.chunks.iter().any(|c| c.orig.is_some())
  }
}

pub fn root_join(root: Option<&str>, s: &str) -> String {
  match root {
    None | Some("") => s.to_string(),
    Some(r) if r.ends_with('/') => format!("{r}{s}"),
    Some(r) => format!("{r}/{s}"),
  }
}

/// A SourceMap decoded by the harness.
pub struct Decoded {
  pub segs: Vec<Seg>,
  pub by_line: BTreeMap<u32, Vec<Seg>>,
  pub sources: Vec<String>,
  pub contents: Vec<String>,
  pub names: Vec<String>,
}

pub fn decode_map(map: &SourceMap) -> Result<Decoded, String> {
  let segs = vlq::decode(map.mappings())
    .map_err(|e| format!("mappings {:?} do not decode: {e:?}", map.mappings()))?;
  let mut by_line: BTreeMap<u32, Vec<Seg>> = BTreeMap::new();
  for s in &segs {
    by_line.entry(s.line).or_default().push(*s);
  }
  Ok(Decoded {
    segs,
    by_line,
    sources: map.sources().iter().map(|s| root_join(map.source_root(), s)).collect(),
    contents: map.sources_content().to_vec(),
    names: map.names().to_vec(),
  })
}

impl Decoded {
  pub fn attr_of(&self, o: &Option<Orig>) -> AttrFull {
    o.map(|o| {
      (
        self.sources.get(o.src as usize).cloned().unwrap_or(format!("?src{}", o.src)),
        self.contents.get(o.src as usize).cloned().filter(|c| !c.is_empty()),
        o.line,
        o.col,
        o.name
          .map(|n| self.names.get(n as usize).cloned().unwrap_or(format!("?name{n}"))),
      )
    })
  }
  /// columns=true lookup: greatest segment at or before (line, col) on that line
  pub fn lookup(&self, line: u32, col: u32) -> Option<Seg> {
    let v = self.by_line.get(&line)?;
    let mut best: Option<Seg> = None;
    for s in v {
      if s.col <= col && best.map_or(true, |b| b.col <= s.col) {
        best = Some(*s);
      }
    }
    best
  }
  /// columns=false lookup: the line's first mapped segment
  pub fn first_mapped(&self, line: u32) -> Option<Seg> {
    self.by_line.get(&line)?.iter().find(|s| s.orig.is_some()).copied()
  }
}

/// Attribution of every byte of `text` through `map` (None = no map).
/// columns=false: (file, content, line, 0, None) of the line's first mapped
/// segment.
pub fn attr_from_map(
  map: Option<&SourceMap>,
  text: &str,
  columns: bool,
) -> Result<Vec<AttrFull>, String> {
  let (pos, _) = positions(text);
  let Some(map) = map else {
    return Ok(vec![None; text.len()]);
  };
  let d = decode_map(map)?;
  let mut out = Vec::with_capacity(text.len());
  let mut cache: Option<(u32, AttrFull)> = None;
  for (l, c) in pos {
    if columns {
      out.push(d.attr_of(&d.lookup(l, c).and_then(|s| s.orig)));
    } else {
      if cache.as_ref().map(|x| x.0) != Some(l) {
        let a = d
          .attr_of(&d.first_mapped(l).and_then(|s| s.orig))
          .map(|(f, ct, ol, _, _)| (f, ct, ol, 0, None));
        cache = Some((l, a));
      }
      out.push(cache.as_ref().unwrap().1.clone());
    }
  }
  Ok(out)
}

pub fn panic_message(e: Box<dyn std::any::Any + Send>) -> String {
  e.downcast_ref::<String>()
    .cloned()
    .or(e.downcast_ref::<&str>().map(|s| s.to_string()))
    .unwrap_or_else(|| "<non-string panic payload>".into())
}

thread_local! {
  pub static LAST_PANIC_LOC: RefCell<String> = const { RefCell::new(String::new()) };
}

/// Run `f`, turning a panic into Err(message with location).
pub fn guard<T>(f: impl FnOnce() -> T) -> Result<T, String> {
  match catch_unwind(AssertUnwindSafe(f)) {
    Ok(v) => Ok(v),
    Err(e) => {
      let loc = LAST_PANIC_LOC.with(|l| l.borrow().clone());
      Err(format!("panic at {loc}: {}", panic_message(e)))
    }
  }
}

pub fn first_diff<T: PartialEq>(a: &[T], b: &[T]) -> Option<usize> {
  if a.len() != b.len() {
    return Some(a.len().min(b.len()));
  }
  (0..a.len()).find(|&i| a[i] != b[i])
}

impl Stream {
  /// Attribution of every byte of `text` using only the reported chunk
  /// *positions* (works for text-less final-source streams too): columns=true
  /// takes the last chunk reported at or before the byte on its line,
  /// columns=false the first mapped chunk reported on the line.
  pub fn attr_by_position(&self, text: &str, columns: bool) -> Vec<AttrFull> {
    let (pos, _) = positions(text);
    let mut by_line: BTreeMap<u32, Vec<&Chunk>> = BTreeMap::new();
    for c in &self.chunks {
      by_line.entry(c.line).or_default().push(c);
    }
    pos
      .iter()
      .map(|(l, c)| {
        let Some(v) = by_line.get(l) else { return None };
        if columns {
          let mut best: Option<&Chunk> = None;
          for ch in v {
            if ch.col <= *c {
              best = Some(ch);
            }
          }
          self.attr_of(&best.and_then(|b| b.orig))
        } else {
          let first = v.iter().find(|ch| ch.orig.is_some());
          self.attr_of(&first.and_then(|b| b.orig)).map(|(f, ct, ol, _, _)| (f, ct, ol, 0, None))
        }
      })
      .collect()
  }
}
