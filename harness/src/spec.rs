//! Serialisable descriptions of the things the checks generate: source trees,
//! source maps, replacement lists.  A `Spec` is pure data; `build` turns it into
//! real `rspack_sources` objects (fresh objects on every call).

use serde::{Deserialize, Serialize};

/// One replacement of a ReplaceSource, in call order.
#[derive(Clone, Debug, Serialize, Deserialize, PartialEq, Eq, Hash)]
pub struct Repl {
  pub start: u32,
  pub end: u32,
  pub content: String,
  pub name: Option<String>,
  /// 0 = Pre, 1 = Normal, 2 = Post
  pub enforce: u8,
}

/// Original location of a segment.
#[derive(Clone, Copy, Debug, Serialize, Deserialize, PartialEq, Eq, Hash, PartialOrd, Ord)]
pub struct Orig {
  pub src: u32,
  pub line: u32,
  pub col: u32,
  pub name: Option<u32>,
}

/// One decoded source-map segment (generated line is 1-based).
#[derive(Clone, Copy, Debug, Serialize, Deserialize, PartialEq, Eq, Hash, PartialOrd, Ord)]
pub struct Seg {
  pub line: u32,
  pub col: u32,
  pub orig: Option<Orig>,
}

/// A source map as data.  `segs` is sorted by generated position.
#[derive(Clone, Debug, Serialize, Deserialize, PartialEq, Eq, Hash, Default)]
pub struct MapSpec {
  pub segs: Vec<Seg>,
  pub sources: Vec<String>,
  /// either empty (no sourcesContent) or one entry per source
  pub contents: Vec<String>,
  pub names: Vec<String>,
  pub root: Option<String>,
  #[serde(default)]
  pub file: Option<String>,
  #[serde(default)]
  pub debug_id: Option<String>,
}

/// A source tree.
#[derive(Clone, Debug, Serialize, Deserialize, PartialEq, Eq, Hash)]
pub enum Spec {
  /// `RawSource::from(String)`
  Raw(String),
  /// `RawSource::from(Vec<u8>)`
  RawBytes(Vec<u8>),
  /// `RawStringSource::from(String)`
  RawStr(String),
  /// `RawBufferSource::from(Vec<u8>)`
  RawBuf(Vec<u8>),
  /// `OriginalSource::new(text, name)`
  Orig { text: String, name: String },
  /// `SourceMapSource` without inner map
  Sms {
    text: String,
    name: String,
    map: MapSpec,
    /// Some((original_source, remove_original_source)): built with the full `SourceMapSourceOptions`
    /// (inner_source_map: None) instead of `WithoutOriginalOptions`; without an inner map the two fields
    /// take part in `==` / `Hash` / `Debug` only
    #[serde(default)]
    full: Option<(Option<String>, bool)>,
  },
  /// `SourceMapSource` with inner map
  SmsInner {
    text: String,
    name: String,
    map: MapSpec,
    original: Option<String>,
    inner: MapSpec,
    remove: bool,
  },
  /// `ConcatSource`; `how`: 0 = `new` over boxed children (nested concats stay
  /// unflattened), 1 = `add` one by one with nested concats passed typed
  /// (flattened), 2 = `add` one by one with nested concats boxed first, 3 = `new` over typed
  /// ConcatSource items (flattened by `new`) when all children are concats, or over typed leaf items when all
  /// children are raw leaves / all are OriginalSources, else like 0; 4 = `new` over the maximal prefix of raw
  /// leaves as typed items (possibly none), then `add` of every further child typed.
  Concat { how: u8, children: Vec<Spec> },
  /// `ReplaceSource::new(inner)` followed by the replacement calls in order
  Replace { inner: Box<Spec>, repls: Vec<Repl> },
  /// `CachedSource::new(inner)`
  Cached(Box<Spec>),
  /// an extra `.boxed()` layer (`Arc<Arc<dyn Source>>`)
  Boxed(Box<Spec>),
  /// a user-defined source (harness type) without map, built on the public
  /// default streaming helper, with schedule points of its own (C18)
  Custom { text: String },
}

impl Spec {
  pub fn children(&self) -> Vec<&Spec> {
    match self {
      Spec::Concat { children, .. } => children.iter().collect(),
      Spec::Replace { inner, .. } | Spec::Cached(inner) | Spec::Boxed(inner) => {
        vec![inner]
      }
      _ => vec![],
    }
  }

  /// pre-order walk
  pub fn walk<'a>(&'a self, f: &mut dyn FnMut(&'a Spec, usize), depth: usize) {
    f(self, depth);
    for c in self.children() {
      c.walk(f, depth + 1);
    }
  }

  pub fn any(&self, p: &dyn Fn(&Spec) -> bool) -> bool {
    let mut r = false;
    self.walk(&mut |s, _| r |= p(s), 0);
    r
  }

  pub fn count(&self, p: &dyn Fn(&Spec) -> bool) -> usize {
    let mut r = 0;
    self.walk(&mut |s, _| r += p(s) as usize, 0);
    r
  }

  /// text and name of the first OriginalSource leaf with non-empty text
  pub fn find_orig(&self) -> Option<(String, String)> {
    match self {
      Spec::Orig { text, name } if !text.is_empty() => Some((text.clone(), name.clone())),
      _ => self.children().into_iter().find_map(|c| c.find_orig()),
    }
  }
  pub fn depth(&self) -> usize {
    let mut d = 0;
    self.walk(&mut |_, k| d = d.max(k), 0);
    d
  }

  pub fn is_leaf(&self) -> bool {
    self.children().is_empty() && !matches!(self, Spec::Concat { .. })
  }

  pub fn has_replace(&self) -> bool {
    self.any(&|s| matches!(s, Spec::Replace { .. }))
  }

  pub fn has_cached(&self) -> bool {
    self.any(&|s| matches!(s, Spec::Cached(_)))
  }

  pub fn has_sms(&self) -> bool {
    self.any(&|s| matches!(s, Spec::Sms { .. } | Spec::SmsInner { .. }))
  }

  /// a CachedSource somewhere beneath a ReplaceSource
  pub fn cached_under_replace(&self) -> bool {
    fn go(s: &Spec, under: bool) -> bool {
      match s {
        Spec::Cached(i) => under || go(i, under),
        Spec::Replace { inner, .. } => go(inner, true),
        _ => s.children().iter().any(|c| go(c, under)),
      }
    }
    go(self, false)
  }
}

/// Reference text of a tree: the independent splice model (C05) applied
/// recursively.  Never calls into the crate.
pub fn model_text(s: &Spec) -> String {
  match s {
    Spec::Raw(t) | Spec::RawStr(t) => t.clone(),
    Spec::Orig { text, .. } | Spec::Sms { text, .. } | Spec::SmsInner { text, .. } | Spec::Custom { text } => {
      text.clone()
    }
    Spec::RawBytes(b) | Spec::RawBuf(b) => String::from_utf8_lossy(b).to_string(),
    Spec::Concat { children, .. } => children.iter().map(model_text).collect(),
    Spec::Replace { inner, repls } => splice_text(&model_text(inner), repls),
    Spec::Cached(i) | Spec::Boxed(i) => model_text(i),
  }
}

/// order of application: (start, end, enforce, insertion index)
pub fn sorted_repls(repls: &[Repl]) -> Vec<usize> {
  let mut idx: Vec<usize> = (0..repls.len()).collect();
  idx.sort_by_key(|&i| (repls[i].start, repls[i].end, repls[i].enforce, i));
  idx
}

/// The replacement model of C05 on a string.
pub fn splice_text(t: &str, repls: &[Repl]) -> String {
  let mut out = String::new();
  let mut pos = 0usize;
  for i in sorted_repls(repls) {
    let r = &repls[i];
    let st = (r.start as usize).min(t.len());
    if pos < st {
      out.push_str(&t[pos..st]);
      pos = st;
    }
    out.push_str(&r.content);
    pos = pos.max((r.end as usize).min(t.len()));
  }
  out.push_str(&t[pos..]);
  out
}

/// The same splice on an arbitrary per-byte annotation vector.
pub fn splice_vec<T: Clone>(t: &[T], repls: &[Repl], fill: &dyn Fn(&Repl, usize) -> T) -> Vec<T> {
  let mut out = Vec::new();
  let mut pos = 0usize;
  for i in sorted_repls(repls) {
    let r = &repls[i];
    let st = (r.start as usize).min(t.len());
    if pos < st {
      out.extend_from_slice(&t[pos..st]);
      pos = st;
    }
    for k in 0..r.content.len() {
      out.push(fill(r, k));
    }
    pos = pos.max((r.end as usize).min(t.len()));
  }
  out.extend_from_slice(&t[pos..]);
  out
}

/// Reference bytes of a tree (C07): binary leaves keep their exact bytes
/// except below a ReplaceSource, whose buffer is the bytes of its text.
pub fn model_bytes(s: &Spec) -> Vec<u8> {
  match s {
    Spec::RawBytes(b) | Spec::RawBuf(b) => b.clone(),
    Spec::Concat { children, .. } => children.iter().flat_map(model_bytes).collect(),
    Spec::Replace { .. } => model_text(s).into_bytes(),
    Spec::Cached(i) | Spec::Boxed(i) => model_bytes(i),
    _ => model_text(s).into_bytes(),
  }
}
