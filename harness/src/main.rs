use std::alloc::{GlobalAlloc, Layout, System};

use vcheck::runner::{install_panic_hook, Ctx, Tier};

/// Every freed block is overwritten (0xDD, never valid UTF-8) before it goes back to the system allocator, and a
/// `realloc` always moves: a borrow that outlives its allocation - a chunk, name or content read after the call that
/// handed it out has returned (observe::stream does exactly that), a reference into a vector that grew - then reads
/// bytes that cannot be mistaken for the data it once pointed to, instead of stale bytes that still look right.
struct Poison;

unsafe impl GlobalAlloc for Poison {
  unsafe fn alloc(&self, l: Layout) -> *mut u8 {
    System.alloc(l)
  }
  unsafe fn alloc_zeroed(&self, l: Layout) -> *mut u8 {
    System.alloc_zeroed(l)
  }
  unsafe fn dealloc(&self, p: *mut u8, l: Layout) {
    std::ptr::write_bytes(p, 0xDD, l.size());
    System.dealloc(p, l)
  }
  unsafe fn realloc(&self, p: *mut u8, l: Layout, new_size: usize) -> *mut u8 {
    let nl = Layout::from_size_align_unchecked(new_size, l.align());
    let q = System.alloc(nl);
    if !q.is_null() {
      std::ptr::copy_nonoverlapping(p, q, l.size().min(new_size));
      self.dealloc(p, l);
    }
    q
  }
}

#[global_allocator]
static ALLOC: Poison = Poison;

fn usage() -> ! {
  eprintln!("usage: vcheck <ID> quick|thorough | vcheck <ID> replay <file>");
  std::process::exit(2);
}

fn main() {
  let args: Vec<String> = std::env::args().collect();
  if args.len() < 3 {
    usage();
  }
  if args[1] == "hashof" {
    std::process::exit(vcheck::props::c20::hashof_main());
  }
  let id = args[1].to_uppercase();
  let verif_dir = std::env::var("VERIF_DIR").unwrap_or_else(|_| "/verif".to_string());
  let seed: u64 = std::env::var("VERIF_SEED").ok().and_then(|s| s.parse().ok()).unwrap_or(1);
  let threads: usize = std::env::var("VERIF_THREADS")
    .ok()
    .and_then(|s| s.parse().ok())
    .unwrap_or_else(|| std::thread::available_parallelism().map(|n| n.get()).unwrap_or(4).min(16));
  install_panic_hook();
  let (tier, replay) = match args[2].as_str() {
    "quick" => (Tier::Quick, None),
    "thorough" => (Tier::Thorough, None),
    "replay" => (Tier::Quick, Some(args.get(3).cloned().unwrap_or_else(|| usage()))),
    _ => usage(),
  };
  let sub = args.iter().any(|a| a == "--sub");
  vcheck::runner::start_watchdog();
  vcheck::runner::install_crash_handler();
  let ctx = Ctx { tier, seed, verif_dir, threads, sub };
  let code = vcheck::props::dispatch(&id, &ctx, replay.as_deref());
  std::process::exit(code);
}
