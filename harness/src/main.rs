use std::alloc::{GlobalAlloc, Layout, System};

use vcheck::runner::{install_panic_hook, Ctx, Tier};

/// Every freed block is overwritten (0xDD, never valid UTF-8) before it goes back to the system allocator, and a
/// `realloc` always moves: a borrow that outlives its allocation - a chunk, name or content read after the call that
/// handed it out has returned (observe::stream does exactly that), a reference into a vector that grew - then reads
/// bytes that cannot be mistaken for the data it once pointed to, instead of stale bytes that still look right.
/// Every block is followed by 16 guard bytes that are looked at when it is freed: a write past the end of an
/// allocation (a raw-pointer write into under-reserved capacity, a `set_len` beyond it) is reported for the case being
/// evaluated on that thread (`vcheck::heapcheck`), where the system allocator's slack would have swallowed it.
struct Poison;

const GUARD: usize = 16;
const GUARD_BYTE: u8 = 0xCA;

impl Poison {
  fn padded(l: Layout) -> Option<Layout> {
    Layout::from_size_align(l.size().checked_add(GUARD)?, l.align()).ok()
  }
}

unsafe impl GlobalAlloc for Poison {
  unsafe fn alloc(&self, l: Layout) -> *mut u8 {
    let Some(pl) = Self::padded(l) else { return std::ptr::null_mut() };
    let p = System.alloc(pl);
    if !p.is_null() {
      std::ptr::write_bytes(p.add(l.size()), GUARD_BYTE, GUARD);
    }
    p
  }
  unsafe fn alloc_zeroed(&self, l: Layout) -> *mut u8 {
    let Some(pl) = Self::padded(l) else { return std::ptr::null_mut() };
    let p = System.alloc_zeroed(pl);
    if !p.is_null() {
      std::ptr::write_bytes(p.add(l.size()), GUARD_BYTE, GUARD);
    }
    p
  }
  unsafe fn dealloc(&self, p: *mut u8, l: Layout) {
    let guard = std::slice::from_raw_parts(p.add(l.size()), GUARD);
    if guard.iter().any(|b| *b != GUARD_BYTE) {
      vcheck::heapcheck::report(l.size());
    }
    std::ptr::write_bytes(p, 0xDD, l.size() + GUARD);
    System.dealloc(p, Self::padded(l).unwrap_unchecked())
  }
  unsafe fn realloc(&self, p: *mut u8, l: Layout, new_size: usize) -> *mut u8 {
    let nl = Layout::from_size_align_unchecked(new_size, l.align());
    let q = self.alloc(nl);
    if !q.is_null() {
      std::ptr::copy_nonoverlapping(p, q, l.size().min(new_size));
      self.dealloc(p, l);
    }
    q
  }
}

#[global_allocator]
static ALLOC: Poison = Poison;

fn usage() -> ! {
  eprintln!("usage: vcheck <ID> quick|thorough | vcheck <ID> replay <file>");
  std::process::exit(2);
}

fn main() {
  let args: Vec<String> = std::env::args().collect();
  if args.len() < 3 {
    usage();
  }
  if args[1] == "hashof" {
    std::process::exit(vcheck::props::c20::hashof_main());
  }
  let id = args[1].to_uppercase();
  let verif_dir = std::env::var("VERIF_DIR").unwrap_or_else(|_| "/verif".to_string());
  let seed: u64 = std::env::var("VERIF_SEED").ok().and_then(|s| s.parse().ok()).unwrap_or(1);
  let threads: usize = std::env::var("VERIF_THREADS")
    .ok()
    .and_then(|s| s.parse().ok())
    .unwrap_or_else(|| std::thread::available_parallelism().map(|n| n.get()).unwrap_or(4).min(16));
  install_panic_hook();
  let (tier, replay) = match args[2].as_str() {
    "quick" => (Tier::Quick, None),
    "thorough" => (Tier::Thorough, None),
    "replay" => (Tier::Quick, Some(args.get(3).cloned().unwrap_or_else(|| usage()))),
    _ => usage(),
  };
  let sub = args.iter().any(|a| a == "--sub");
  vcheck::runner::start_watchdog();
  vcheck::runner::install_crash_handler();
  let ctx = Ctx { tier, seed, verif_dir, threads, sub };
  let code = vcheck::props::dispatch(&id, &ctx, replay.as_deref());
  std::process::exit(code);
}
