//! Runtime shared by the fuzz targets: panic handling, oracle failures, statistics.

use std::sync::atomic::{AtomicU64, Ordering};
use std::sync::Once;

static INIT: Once = Once::new();
static NT: AtomicU64 = AtomicU64::new(0);

/// libfuzzer-sys installs a panic hook that aborts on *every* panic, also on those
/// the oracles catch on purpose (tolerated known findings, guarded library calls).
/// Replace it by a silent hook that only records the location; oracle failures
/// abort explicitly through `fail`.
pub fn init() {
  INIT.call_once(|| {
    std::panic::set_hook(Box::new(|info| {
      let loc = info.location().map(|l| format!("{}:{}", l.file(), l.line())).unwrap_or_default();
      crate::observe::LAST_PANIC_LOC.with(|l| *l.borrow_mut() = loc);
      let msg = info.to_string();
      if msg.contains("unsafe precondition") || msg.contains("cannot unwind") {
        eprintln!("VERIF-ORACLE: undefined-behaviour check: {msg}");
        std::process::abort();
      }
    }));
  });
}

pub fn fail(target: &str, reason: &str) -> ! {
  eprintln!("VERIF-ORACLE: target {target}: {reason}");
  std::process::abort();
}

pub fn count_nontrivial() {
  let n = NT.fetch_add(1, Ordering::Relaxed) + 1;
  if n % 1024 == 0 || n < 4 {
    if let Ok(p) = std::env::var("VERIF_FUZZ_STATS") {
      let _ = std::fs::write(format!("{p}.{}", std::process::id()), n.to_string());
    }
  }
}

/// evaluate a CheckResult inside a target
pub fn verdict(target: &str, r: crate::runner::CheckResult) {
  match r {
    Ok(info) => {
      if info.nontrivial {
        count_nontrivial();
      }
    }
    Err(reason) => fail(target, &reason),
  }
}
