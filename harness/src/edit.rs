//! Single edits of a source tree (C14, C20): every kind of ingredient, at
//! every depth.

use crate::spec::*;

pub struct Edit {
  pub kind: &'static str,
  pub depth: usize,
  pub result: Spec,
}

fn bump_text(t: &str) -> Vec<String> {
  let mut v = vec![format!("{t}z"), format!("q{t}")];
  if !t.is_empty() {
    // change the first char, drop the last char
    let mut cs: Vec<char> = t.chars().collect();
    cs[0] = if cs[0] == 'w' { 'v' } else { 'w' };
    v.push(cs.iter().collect());
    let mut cs: Vec<char> = t.chars().collect();
    cs.pop();
    v.push(cs.iter().collect());
  }
  v
}

fn bump_bytes(b: &[u8]) -> Vec<Vec<u8>> {
  let mut v = vec![[b, b"z"].concat()];
  if !b.is_empty() {
    v.push(b[..b.len() - 1].to_vec());
    let mut c = b.to_vec();
    c[0] ^= 1;
    v.push(c);
    // another value of a byte that is not ASCII (inside an invalid or multi-byte sequence)
    if let Some(i) = b.iter().rposition(|x| *x >= 0x80) {
      let mut c = b.to_vec();
      c[i] ^= 1;
      v.push(c);
    }
  }
  v
}

fn map_edits(m: &MapSpec) -> Vec<(&'static str, MapSpec)> {
  let mut out: Vec<(&'static str, MapSpec)> = vec![];
  let mut push = |k: &'static str, f: &dyn Fn(&mut MapSpec)| {
    let mut n = m.clone();
    f(&mut n);
    if &n != m {
      out.push((k, n));
    }
  };
  push("map: add a segment", &|n| {
    let last = n.segs.last().copied();
    let (l, c) = last.map(|s| (s.line, s.col + 1)).unwrap_or((1, 0));
    n.segs.push(Seg { line: l, col: c, orig: Some(Orig { src: 0, line: 1, col: 0, name: None }) });
  });
  push("map: drop a segment", &|n| {
    n.segs.pop();
  });
  push("map: segment original line", &|n| {
    if let Some(o) = n.segs.iter_mut().find_map(|s| s.orig.as_mut()) {
      o.line += 1;
    }
  });
  push("map: segment original column", &|n| {
    if let Some(o) = n.segs.iter_mut().find_map(|s| s.orig.as_mut()) {
      o.col += 1;
    }
  });
  push("map: segment source index", &|n| {
    let k = n.sources.len() as u32;
    if k >= 2 {
      if let Some(o) = n.segs.iter_mut().find_map(|s| s.orig.as_mut()) {
        o.src = (o.src + 1) % k;
      }
    }
  });
  push("map: segment name", &|n| {
    if !n.names.is_empty() {
      if let Some(o) = n.segs.iter_mut().find_map(|s| s.orig.as_mut()) {
        o.name = match o.name {
          None => Some(0),
          Some(_) => None,
        };
      }
    }
  });
  push("map: segment mapped -> unmapped", &|n| {
    if let Some(s) = n.segs.iter_mut().find(|s| s.orig.is_some()) {
      s.orig = None;
    }
  });
  push("map: source name", &|n| {
    if let Some(s) = n.sources.first_mut() {
      s.push_str(".x");
    }
  });
  push("map: add a source", &|n| {
    n.sources.push("extra.js".into());
    if !n.contents.is_empty() {
      n.contents.push("extra".into());
    }
  });
  push("map: sourcesContent entry", &|n| {
    if let Some(s) = n.contents.first_mut() {
      s.push_str("//");
    }
  });
  push("map: drop sourcesContent", &|n| {
    n.contents.clear();
  });
  // lists that hold no text at all, but differ: [] / [""] / ["", ""]
  push("map: sourcesContent entries emptied", &|n| {
    if n.contents.is_empty() {
      n.contents.push(String::new());
    } else {
      n.contents.iter_mut().for_each(|c| c.clear());
    }
  });
  push("map: sourcesContent one more empty entry", &|n| {
    if n.contents.iter().all(|c| c.is_empty()) {
      n.contents.push(String::new());
    }
  });
  push("map: name string", &|n| {
    if let Some(s) = n.names.first_mut() {
      s.push('_');
    }
  });
  push("map: add a name", &|n| {
    n.names.push("extra".into());
  });
  push("map: add an empty name", &|n| {
    n.names.push(String::new());
  });
  push("map: file", &|n| {
    n.file = match &n.file {
      None => Some("out.js".into()),
      Some(f) => Some(format!("{f}x")),
    };
  });
  push("map: sourceRoot", &|n| {
    n.root = match &n.root {
      None => Some("root".into()),
      Some(f) => Some(format!("{f}x")),
    };
  });
  // spellings a normalising step would fold together: a trailing or doubled separator, a leading "./", letter
  // case, surrounding blanks
  fn respell(s: &str, k: usize) -> String {
    match k {
      0 => match s.strip_suffix('/') {
        Some(t) => t.to_string(),
        None => format!("{s}/"),
      },
      1 => match s.strip_prefix("./") {
        Some(t) => t.to_string(),
        None => format!("./{s}"),
      },
      2 => {
        let u = s.to_uppercase();
        if u == s {
          s.to_lowercase()
        } else {
          u
        }
      }
      3 => format!("{s} "),
      4 => format!(" {s}"),
      _ => s.replacen('/', "//", 1),
    }
  }
  for k in 0..6 {
    push("map: sourceRoot respelled (trailing '/', './', case, blanks, '//')", &|n| {
      if let Some(r) = &n.root {
        n.root = Some(respell(r, k));
      }
    });
  }
  for k in [0, 1, 2, 5] {
    push("map: source name respelled (trailing '/', './', case, '//')", &|n| {
      if let Some(s) = n.sources.last_mut() {
        *s = respell(s, k);
      }
    });
  }
  for k in [0, 2, 3] {
    push("map: file respelled (trailing '/', case, blank)", &|n| {
      if let Some(f) = &n.file {
        n.file = Some(respell(f, k));
      }
    });
  }
  for k in [2, 3, 4] {
    push("map: name string respelled (case, blanks)", &|n| {
      if let Some(s) = n.names.last_mut() {
        *s = respell(s, k);
      }
    });
    push("map: debugId respelled (case, blanks)", &|n| {
      if let Some(f) = &n.debug_id {
        n.debug_id = Some(respell(f, k));
      }
    });
  }
  push("map: sourcesContent entry gains a trailing line break", &|n| {
    if let Some(s) = n.contents.last_mut() {
      s.push('\n');
    }
  });
  // absent <-> present but empty
  push("map: sourceRoot absent <-> empty", &|n| {
    n.root = match n.root.as_deref() {
      None => Some(String::new()),
      Some("") => None,
      Some(x) => Some(x.to_string()),
    };
  });
  push("map: file absent <-> empty", &|n| {
    n.file = match n.file.as_deref() {
      None => Some(String::new()),
      Some("") => None,
      Some(x) => Some(x.to_string()),
    };
  });
  push("map: debugId absent <-> empty", &|n| {
    n.debug_id = match n.debug_id.as_deref() {
      None => Some(String::new()),
      Some("") => None,
      Some(x) => Some(x.to_string()),
    };
  });
  push("map: debugId", &|n| {
    n.debug_id = match &n.debug_id {
      None => Some("0000-1".into()),
      Some(f) => Some(format!("{f}x")),
    };
  });
  out
}

/// all single edits of the root node itself (not of its descendants)
fn node_edits(s: &Spec, include_sms_name: bool) -> Vec<(&'static str, Spec)> {
  let mut out: Vec<(&'static str, Spec)> = vec![];
  match s {
    Spec::Raw(t) => {
      for n in bump_text(t) {
        out.push(("leaf text", Spec::Raw(n)));
      }
      out.push(("type tag: RawSource(string) -> RawStringSource", Spec::RawStr(t.clone())));
      out.push(("type tag: RawSource(string) -> RawSource(buffer)", Spec::RawBytes(t.clone().into_bytes())));
      out.push(("type tag: RawSource(string) -> RawBufferSource", Spec::RawBuf(t.clone().into_bytes())));
      out.push(("type tag: RawSource -> OriginalSource", Spec::Orig { text: t.clone(), name: "tag.js".into() }));
    }
    Spec::RawStr(t) => {
      for n in bump_text(t) {
        out.push(("leaf text", Spec::RawStr(n)));
      }
      out.push(("type tag: RawStringSource -> RawSource(string)", Spec::Raw(t.clone())));
    }
    Spec::RawBytes(b) => {
      for n in bump_bytes(b) {
        out.push(("leaf bytes", Spec::RawBytes(n)));
      }
      out.push(("type tag: RawSource(buffer) -> RawBufferSource", Spec::RawBuf(b.clone())));
    }
    Spec::RawBuf(b) => {
      for n in bump_bytes(b) {
        out.push(("leaf bytes", Spec::RawBuf(n)));
      }
      out.push(("type tag: RawBufferSource -> RawSource(buffer)", Spec::RawBytes(b.clone())));
    }
    Spec::Orig { text, name } => {
      for n in bump_text(text) {
        out.push(("leaf text", Spec::Orig { text: n, name: name.clone() }));
      }
      out.push(("original file name", Spec::Orig { text: text.clone(), name: format!("{name}.x") }));
      out.push(("original file name respelled (trailing '/', './', case)", Spec::Orig { text: text.clone(), name: format!("{name}/") }));
      out.push(("original file name respelled (trailing '/', './', case)", Spec::Orig { text: text.clone(), name: format!("./{name}") }));
      out.push(("original file name respelled (trailing '/', './', case)", Spec::Orig { text: text.clone(), name: name.to_uppercase() }));
      out.push(("type tag: OriginalSource -> RawSource", Spec::Raw(text.clone())));
    }
    Spec::Sms { text, name, map, full } => {
      for n in bump_text(text) {
        out.push(("leaf text", Spec::Sms { text: n, name: name.clone(), map: map.clone(), full: full.clone() }));
      }
      if include_sms_name {
        out.push(("SourceMapSource name", Spec::Sms { text: text.clone(), name: format!("{name}.x"), map: map.clone(), full: full.clone() }));
      }
      for (k, m) in map_edits(map) {
        out.push((k, Spec::Sms { text: text.clone(), name: name.clone(), map: m, full: full.clone() }));
      }
      // the two option fields that mean nothing without an inner map (they still take part in == / hash)
      let mk = |f: Option<(Option<String>, bool)>| Spec::Sms { text: text.clone(), name: name.clone(), map: map.clone(), full: f };
      match full {
        None => {
          out.push(("options: WithoutOriginalOptions -> full options, remove_original_source", mk(Some((None, true)))));
          out.push(("options: WithoutOriginalOptions -> full options, original_source", mk(Some((Some("orig".into()), false)))));
        }
        Some((o, r)) => {
          out.push(("options: remove_original_source (no inner map)", mk(Some((o.clone(), !*r)))));
          out.push((
            "options: original_source (no inner map)",
            mk(Some((
              match o {
                None => Some("orig".into()),
                Some(x) => Some(format!("{x}x")),
              },
              *r,
            ))),
          ));
        }
      }
    }
    Spec::SmsInner { text, name, map, original, inner, remove } => {
      let mk = |text: &String, map: &MapSpec, original: &Option<String>, inner: &MapSpec, remove: bool| Spec::SmsInner {
        text: text.clone(),
        name: name.clone(),
        map: map.clone(),
        original: original.clone(),
        inner: inner.clone(),
        remove,
      };
      for n in bump_text(text) {
        out.push(("leaf text", mk(&n, map, original, inner, *remove)));
      }
      for (k, m) in map_edits(map) {
        // keep the inner source name inside the outer sources
        // and keep the API's precondition: the original text is given or is in the outer sourcesContent
        let w = m.sources.iter().position(|s| s == name);
        if w.is_some() && (original.is_some() || w.is_some_and(|w| m.contents.get(w).is_some())) {
          out.push((k, mk(text, &m, original, inner, *remove)));
        }
      }
      for (_k, m) in map_edits(inner) {
        out.push(("inner map", mk(text, map, original, &m, *remove)));
      }
      if let Some(o) = original {
        out.push(("original_source text", mk(text, map, &Some(format!("{o}z")), inner, *remove)));
      }
      out.push(("remove_original_source", mk(text, map, original, inner, !*remove)));
    }
    Spec::Concat { how, children } => {
      for i in 0..children.len() {
        let mut c = children.clone();
        c.remove(i);
        out.push(("remove a child", Spec::Concat { how: *how, children: c }));
      }
      for i in 0..=children.len() {
        let mut c = children.clone();
        c.insert(i, Spec::Raw("+".into()));
        out.push(("add a child", Spec::Concat { how: *how, children: c }));
      }
      for i in 1..children.len() {
        if children[i] != children[i - 1] {
          let mut c = children.clone();
          c.swap(i, i - 1);
          out.push(("reorder children", Spec::Concat { how: *how, children: c }));
        }
      }
      out.push(("construction style (no observable change)", Spec::Concat { how: (*how + 1) % 5, children: children.clone() }));
      // re-bracketing: the next sibling moves into the ConcatSource at the bottom of the preceding child
      // (reached through ReplaceSource / Box layers), i.e. one child changes its parent
      for i in 0..children.len().saturating_sub(1) {
        fn append_into(s: &Spec, extra: &Spec) -> Option<Spec> {
          match s {
            Spec::Concat { how, children } => {
              let mut c = children.clone();
              c.push(extra.clone());
              Some(Spec::Concat { how: *how, children: c })
            }
            // replacement positions past the end of the old text come to lie inside the moved text: they
            // must stay on character boundaries (the callers' precondition), so only ASCII text moves
            // beneath a ReplaceSource
            Spec::Replace { inner, repls } if crate::spec::model_bytes(extra).is_ascii() => {
              append_into(inner, extra).map(|i| Spec::Replace { inner: Box::new(i), repls: repls.clone() })
            }
            Spec::Boxed(inner) => append_into(inner, extra).map(|i| Spec::Boxed(Box::new(i))),
            _ => None,
          }
        }
        if let Some(merged) = append_into(&children[i], &children[i + 1]) {
          let mut c = children.clone();
          c[i] = merged;
          c.remove(i + 1);
          out.push(("re-bracketing: next sibling moved into the preceding child's ConcatSource", Spec::Concat { how: *how, children: c }));
        }
      }
    }
    Spec::Replace { inner, repls } => {
      for i in 0..repls.len() {
        let r = &repls[i];
        let mut alts: Vec<(&'static str, Repl)> = vec![
          ("replacement start", Repl { start: r.start.saturating_sub(1), ..r.clone() }),
          ("replacement end", Repl { end: r.end + 1, ..r.clone() }),
          ("replacement content", Repl { content: format!("{}z", r.content), ..r.clone() }),
          (
            "replacement name",
            Repl { name: if r.name.is_some() { None } else { Some("nx".into()) }, ..r.clone() },
          ),
          ("replacement enforce", Repl { enforce: (r.enforce + 1) % 3, ..r.clone() }),
          (
            "replacement name absent <-> empty / other name",
            Repl {
              name: match r.name.as_deref() {
                None => Some(String::new()),
                Some("") => None,
                Some(n) => Some(format!("{n}x")),
              },
              ..r.clone()
            },
          ),
        ];
        if r.start > 0 && r.start - 1 <= r.end {
          // keep start <= end
        } else {
          alts.remove(0);
        }
        for (k, n) in alts {
          if n != *r && n.start <= n.end {
            let mut v = repls.clone();
            v[i] = n;
            out.push((k, Spec::Replace { inner: inner.clone(), repls: v }));
          }
        }
        let mut v = repls.clone();
        v.remove(i);
        out.push(("remove a replacement", Spec::Replace { inner: inner.clone(), repls: v }));
      }
      let mut v = repls.clone();
      v.push(Repl { start: 0, end: 0, content: "+".into(), name: None, enforce: 1 });
      out.push(("add a replacement", Spec::Replace { inner: inner.clone(), repls: v }));
      for i in 1..repls.len() {
        if repls[i] != repls[i - 1] {
          let mut v = repls.clone();
          v.swap(i, i - 1);
          out.push(("reorder replacement calls", Spec::Replace { inner: inner.clone(), repls: v }));
        }
      }
    }
    Spec::Cached(i) => {
      out.push(("unwrap CachedSource (no observable change)", (**i).clone()));
    }
    Spec::Boxed(i) => {
      out.push(("unwrap Box (no observable change)", (**i).clone()));
    }
    Spec::Custom { text } => {
      for n in bump_text(text) {
        out.push(("leaf text", Spec::Custom { text: n }));
      }
    }
  }
  out
}

fn rebuild(parent: &Spec, child_index: usize, new_child: Spec) -> Spec {
  match parent {
    Spec::Concat { how, children } => {
      let mut c = children.clone();
      c[child_index] = new_child;
      Spec::Concat { how: *how, children: c }
    }
    Spec::Replace { repls, .. } => Spec::Replace { inner: Box::new(new_child), repls: repls.clone() },
    Spec::Cached(_) => Spec::Cached(Box::new(new_child)),
    Spec::Boxed(_) => Spec::Boxed(Box::new(new_child)),
    _ => unreachable!(),
  }
}

pub fn all_edits(s: &Spec, include_sms_name: bool) -> Vec<Edit> {
  fn go(s: &Spec, depth: usize, include_sms_name: bool) -> Vec<Edit> {
    let mut out: Vec<Edit> =
      node_edits(s, include_sms_name).into_iter().filter(|(k, r)| r != s || k.contains("no observable change")).map(|(kind, result)| Edit { kind, depth, result }).collect();
    for (i, c) in s.children().into_iter().enumerate() {
      for e in go(c, depth + 1, include_sms_name) {
        out.push(Edit { kind: e.kind, depth: e.depth, result: rebuild(s, i, e.result) });
      }
    }
    out
  }
  go(s, 0, include_sms_name)
}

/// Pick one edit: first the kind (uniformly over the kinds available for this
/// tree, so rare ingredients are exercised as often as common ones), then the
/// instance.
pub fn pick_edit(mut edits: Vec<Edit>, sel: u16) -> Option<Edit> {
  if edits.is_empty() {
    return None;
  }
  let mut kinds: Vec<&'static str> = edits.iter().map(|e| e.kind).collect();
  kinds.sort_unstable();
  kinds.dedup();
  let kind = kinds[((sel >> 8) as usize * kinds.len()) >> 8];
  let idxs: Vec<usize> = (0..edits.len()).filter(|&i| edits[i].kind == kind).collect();
  let i = idxs[((sel & 0xff) as usize * idxs.len()) >> 8];
  Some(edits.swap_remove(i))
}
