//! Cooperative scheduler for C18: real OS threads, strictly one at a time.
//!
//! Worker threads install a thread-local callback for the guarded schedule
//! points of the library (`rspack_sources::verif::emit`).  At every point the
//! running thread hands control to the scheduler, which picks the next thread
//! from the *enabled* set according to a schedule (a vector of choices).  Lock
//! events (`LockWant` / `LockHeld` / `LockFree`) keep a thread that would block
//! on a lock held by a parked thread out of the enabled set, so the harness
//! never blocks on a real lock; "nobody enabled but somebody unfinished" is a
//! detected deadlock.

use std::collections::HashMap;
use std::sync::{Arc, Condvar, Mutex};

use rspack_sources::verif::Event;

#[derive(Clone, Copy, Debug, PartialEq, Eq)]
enum St {
  Ready,
  /// waits for a modelled lock (OnceLock initialiser in progress)
  Wants(usize),
  /// probed a real lock and found it busy at progress count n: may re-probe once
  /// some other thread has made progress
  BlockedReal(u64),
  Done,
}

/// one scheduling decision with more than one option
#[derive(Clone, Copy, Debug)]
pub struct Decision {
  pub choice: u8,
  pub options: u8,
  pub cur_enabled: bool,
  /// taken at a library schedule point (not at an operation boundary)
  pub at_hook: bool,
}

pub struct Inner {
  status: Vec<St>,
  current: usize,
  locks: HashMap<usize, usize>,
  schedule: Vec<u8>,
  pos: usize,
  max_preemptions: u32,
  pub decisions: Vec<Decision>,
  pub preemptions: u32,
  /// context switches taken inside a library window
  pub inside_switches: u32,
  pub violations: Vec<String>,
  pub deadlock: bool,
  pub trace: Vec<String>,
  aborted: bool,
  all_done: bool,
  pub points: u64,
  /// bumped whenever any thread passes a point or finishes
  progress: u64,
  /// times a thread found a real lock busy
  pub real_blocks: u64,
  /// kernel thread ids of the workers (for the stall check)
  tids: Vec<u32>,
  /// times the running thread was found asleep in the kernel outside any schedule point (blocked on
  /// something no hook announces) and the turn was handed to another thread
  pub stalls: u64,
  /// sites at which a thread has ever reported LockBlocked: the schedule point in front of such a
  /// probe is not progress (a blocked thread re-probing must not re-enable other blocked threads,
  /// or the space of schedules is infinite)
  probe_sites: Vec<&'static str>,
}

pub struct Sched {
  m: Mutex<Inner>,
  cv: Condvar,
}

const NONE: usize = usize::MAX;

impl Sched {
  pub fn new(threads: usize, schedule: Vec<u8>, max_preemptions: u32) -> Arc<Sched> {
    Arc::new(Sched {
      m: Mutex::new(Inner {
        status: vec![St::Ready; threads],
        current: NONE,
        locks: HashMap::new(),
        schedule,
        pos: 0,
        max_preemptions,
        decisions: vec![],
        preemptions: 0,
        inside_switches: 0,
        violations: vec![],
        deadlock: false,
        trace: vec![],
        aborted: false,
        all_done: false,
        points: 0,
        progress: 0,
        real_blocks: 0,
        tids: vec![0; threads],
        stalls: 0,
        probe_sites: vec![],
      }),
      cv: Condvar::new(),
    })
  }

  fn enabled(g: &Inner) -> Vec<usize> {
    (0..g.status.len())
      .filter(|&t| match g.status[t] {
        St::Ready => true,
        St::Wants(l) => g.locks.get(&l).map_or(true, |o| *o == t),
        St::BlockedReal(since) => g.progress > since,
        St::Done => false,
      })
      .collect()
  }

  /// pick who runs next; `me` is the thread making the decision (NONE for the driver)
  fn decide(g: &mut Inner, me: usize, at_hook: bool) {
    let enabled = Self::enabled(g);
    if enabled.is_empty() {
      if g.status.iter().any(|s| *s != St::Done) {
        g.deadlock = true;
        g.violations.push(format!(
          "deadlock: no thread can run, states {:?}, locks held {:?}",
          g.status, g.locks
        ));
        g.aborted = true;
      } else {
        g.all_done = true;
      }
      g.current = NONE;
      return;
    }
    let cur_enabled = me != NONE && enabled.contains(&me);
    let mut options: Vec<usize> = vec![];
    if cur_enabled {
      options.push(me);
    }
    // threads that can make real progress come before threads that would only re-probe a busy
    // lock: the default choice must reach the lock holder, or re-probers starve it for ever
    options.extend(enabled.iter().copied().filter(|t| *t != me && !matches!(g.status[*t], St::BlockedReal(_))));
    options.extend(enabled.iter().copied().filter(|t| *t != me && matches!(g.status[*t], St::BlockedReal(_))));
    let mut choice = 0usize;
    if options.len() > 1 {
      if g.pos < g.schedule.len() {
        choice = g.schedule[g.pos] as usize % options.len();
      }
      if cur_enabled && choice != 0 && g.preemptions >= g.max_preemptions {
        choice = 0;
      }
      g.pos += 1;
      g.decisions.push(Decision { choice: choice as u8, options: options.len() as u8, cur_enabled, at_hook });
      if cur_enabled && choice != 0 {
        g.preemptions += 1;
        if at_hook {
          g.inside_switches += 1;
        }
      }
    }
    g.current = options[choice];
  }

  fn wait_turn<'a>(&'a self, mut g: std::sync::MutexGuard<'a, Inner>, me: usize) -> std::sync::MutexGuard<'a, Inner> {
    self.cv.notify_all();
    while g.current != me && !g.aborted {
      g = self.cv.wait(g).unwrap();
    }
    if g.aborted && g.current != me {
      // the run is over (deadlock detected): never touch a real lock again
      drop(g);
      loop {
        std::thread::park();
      }
    }
    g
  }

  /// the driver starts the run
  pub fn start(&self) {
    let mut g = self.m.lock().unwrap();
    Self::decide(&mut g, NONE, false);
    self.cv.notify_all();
  }

  /// a worker waits for its first turn
  pub fn begin(&self, me: usize) {
    let tid = std::fs::read_link("/proc/thread-self")
      .ok()
      .and_then(|p| p.file_name().map(|n| n.to_string_lossy().to_string()))
      .and_then(|s| s.parse::<u32>().ok())
      .unwrap_or(0);
    let mut g = self.m.lock().unwrap();
    g.tids[me] = tid;
    let _g = self.wait_turn(g, me);
  }

  /// a schedule point reached by thread `me`
  pub fn point(&self, me: usize, ev: Event, site: &'static str, obj: usize, flag: bool, at_hook: bool) {
    let mut g = self.m.lock().unwrap();
    g.points += 1;
    if ev == Event::LockBlocked && !g.probe_sites.contains(&site) {
      g.probe_sites.push(site);
    }
    let probing = matches!(ev, Event::Access | Event::LockBlocked) && g.probe_sites.contains(&site);
    if !probing {
      g.progress += 1;
    }
    if g.trace.len() < 400 {
      g.trace.push(format!("t{me} {ev:?} {site}{}", if flag { " (key present)" } else { "" }));
    }
    match ev {
      Event::LockHeld => {
        // (informational for DashMap shards, whose real state is probed; the model table only
        // decides for locks announced with LockWant, i.e. the OnceLock initialiser)
        g.locks.insert(obj, me);
        g.status[me] = St::Ready;
        return;
      }
      Event::LockFree => {
        g.locks.remove(&obj);
        return;
      }
      Event::CacheInsert => {
        if flag {
          g.violations.push(format!("a map already cached for these options is about to be replaced ({site}, by t{me})"));
        }
        return;
      }
      Event::LockWant => g.status[me] = St::Wants(obj),
      Event::Access => g.status[me] = St::Ready,
      Event::LockBlocked => {
        // the real lock is busy: somebody else has to run first
        g.real_blocks += 1;
        let now = g.progress;
        g.status[me] = St::BlockedReal(now);
      }
    }
    if g.current != me {
      // this thread had stalled outside a schedule point and the turn went elsewhere meanwhile
      // (see `wait_all_done`): it is not its turn to decide, it queues up again
      let mut g = self.wait_turn(g, me);
      if matches!(g.status[me], St::Wants(_) | St::BlockedReal(_)) {
        g.status[me] = St::Ready;
      }
      return;
    }
    Self::decide(&mut g, me, at_hook);
    let mut g = self.wait_turn(g, me);
    // we run again: a wanted (modelled) lock is free now and will be taken before the next
    // point; a really blocked thread goes back to re-probe
    if matches!(g.status[me], St::Wants(_) | St::BlockedReal(_)) {
      g.status[me] = St::Ready;
    }
  }

  /// thread `me` has finished all its operations
  pub fn finish(&self, me: usize) {
    let mut g = self.m.lock().unwrap();
    g.status[me] = St::Done;
    g.progress += 1;
    // locks still recorded for this thread would be a harness error
    let stale: Vec<usize> = g.locks.iter().filter(|(_, o)| **o == me).map(|(k, _)| *k).collect();
    for k in stale {
      g.locks.remove(&k);
      g.violations.push(format!("harness: t{me} finished while recorded as holding lock {k:#x}"));
    }
    if g.current == me || g.current == NONE {
      Self::decide(&mut g, me, false);
    } else if g.status.iter().all(|s| *s == St::Done) {
      g.all_done = true;
    }
    self.cv.notify_all();
  }

  /// wait until every thread is done (or the run was aborted); returns false when aborted
  ///
  /// While waiting, the driver watches for a *stall*: the thread whose turn it is passes no schedule point
  /// for a while and sleeps in the kernel.  Then it is blocked on something no hook announces (a lock the
  /// hooks do not know, held by a parked thread).  The turn goes to another thread - the stalled one
  /// resumes by itself once whatever it waits for is released and queues up at its next schedule point.
  /// Until then two threads may really run at once, which is a legitimate execution too.  If nobody else
  /// can run either, every unfinished thread is blocked: a real deadlock.
  pub fn wait_all_done(&self) -> bool {
    let mut g = self.m.lock().unwrap();
    let (mut seen_points, mut seen_current, mut quiet_polls) = (g.points, g.current, 0u32);
    while !g.all_done && !g.aborted {
      let (g2, _) = self.cv.wait_timeout(g, std::time::Duration::from_millis(50)).unwrap();
      g = g2;
      if g.all_done || g.aborted {
        break;
      }
      if g.points != seen_points || g.current != seen_current {
        (seen_points, seen_current, quiet_polls) = (g.points, g.current, 0);
        continue;
      }
      quiet_polls += 1;
      let cur = g.current;
      if quiet_polls < 6 || cur == NONE || g.status[cur] == St::Done {
        continue;
      }
      // quiet for >= 300 ms: is the running thread asleep in the kernel?
      let asleep = std::fs::read_to_string(format!("/proc/self/task/{}/stat", g.tids[cur]))
        .ok()
        .and_then(|s| s.rsplit_once(") ").map(|(_, rest)| rest.starts_with('S') || rest.starts_with('D')))
        .unwrap_or(false);
      if !asleep {
        quiet_polls = 0;
        continue;
      }
      // somebody else who can make progress?
      let others: Vec<usize> = Self::enabled(&g).into_iter().filter(|t| *t != cur).collect();
      if others.is_empty() && quiet_polls < 200 {
        // nobody to hand the turn to: keep watching; only ten seconds of unbroken sleep count as a deadlock
        continue;
      }
      g.stalls += 1;
      let now = g.progress;
      g.status[cur] = St::BlockedReal(now);
      if g.trace.len() < 400 {
        g.trace.push(format!("t{cur} stalled outside a schedule point (asleep in the kernel); the turn goes on"));
      }
      if others.is_empty() {
        // every other unfinished thread is parked waiting for a lock too: nobody can move
        g.deadlock = true;
        let msg = format!("deadlock: t{cur} sleeps in the kernel outside any schedule point and no other thread can run, states {:?}", g.status);
        g.violations.push(msg);
        g.aborted = true;
        g.current = NONE;
        self.cv.notify_all();
        break;
      }
      // (no progress is credited: a stalled thread becomes eligible again only when somebody really
      // passes a schedule point or finishes - otherwise two threads blocked on each other would hand the
      // turn back and forth for ever instead of being recognised as deadlocked)
      g.current = others[0];
      quiet_polls = 0;
      self.cv.notify_all();
    }
    !g.aborted
  }

  pub fn with<T>(&self, f: impl FnOnce(&Inner) -> T) -> T {
    f(&self.m.lock().unwrap())
  }
}

/// Install the library hook of the calling worker thread.
pub fn install_hook(s: &Arc<Sched>, me: usize) {
  let s2 = s.clone();
  rspack_sources::verif::set_hook(Some(Box::new(move |ev, site, obj, flag| {
    s2.point(me, ev, site, obj, flag, true);
  })));
}

pub fn remove_hook() {
  rspack_sources::verif::set_hook(None);
}

/// The schedule that follows `decisions` in depth-first order under a
/// preemption bound, or None when the space is exhausted.
pub fn next_schedule(decisions: &[Decision], max_preemptions: u32) -> Option<Vec<u8>> {
  let mut i = decisions.len();
  while i > 0 {
    i -= 1;
    let d = decisions[i];
    if d.choice + 1 < d.options {
      // preemptions used by the prefix
      let used: u32 = decisions[..i].iter().filter(|x| x.cur_enabled && x.choice != 0).count() as u32;
      let extra = if d.cur_enabled { 1 } else { 0 };
      if used + extra <= max_preemptions {
        let mut s: Vec<u8> = decisions[..i].iter().map(|x| x.choice).collect();
        s.push(d.choice + 1);
        return Some(s);
      }
    }
  }
  None
}
