//! C08 A SourceMapSource reproduces the attribution of the map it was given

use proptest::collection::vec;
use proptest::prelude::*;
use rspack_sources::{BoxSource, ConcatSource, RawSource, Source, SourceExt, SourceMapSource, SourceMapSourceOptions, WithoutOriginalOptions};
use serde::{Deserialize, Serialize};

use crate::build::source_map;
use crate::custom::CustomSource;
use crate::gen::{abs_map, concretize_map, text, GenCfg};
use crate::model::lookup::*;
use crate::observe::{attr_from_map, guard, opts, positions, root_join, stream, AttrFull, Stream};
use crate::runner::*;
use crate::spec::MapSpec;

pub struct C08;

#[derive(Clone, Debug, Serialize, Deserialize)]
pub struct Case {
  pub text: String,
  pub map: MapSpec,
  /// name given to the SourceMapSource: 0, 6, 7 = "gen.js"; 1-3 = a file of M spelled with the sourceRoot applied;
  /// 4-5 = a file of M as listed.  Without an inner map the name must not matter.
  #[serde(default)]
  pub name_sel: u8,
  /// Some((original_source, remove_original_source)): built through the full `SourceMapSourceOptions` with
  /// `inner_source_map: None`; neither field may change anything that is streamed or declared
  #[serde(default)]
  pub full: Option<(Option<String>, bool)>,
  /// 0-3 enclosing sources between the SourceMapSource and the ConcatSource whose map() is read, innermost first:
  /// 0 = ReplaceSource without replacements, 1 = CachedSource, 2 = ConcatSource[x, ""], 3 = ConcatSource[x]
  #[serde(default)]
  pub wraps: Vec<u8>,
}

fn sms_name(c: &Case) -> String {
  let n = c.map.sources.len();
  match c.name_sel {
    1..=3 if n > 0 => root_join(c.map.root.as_deref(), &c.map.sources[(c.name_sel as usize - 1) % n]),
    4..=5 if n > 0 => c.map.sources[(c.name_sel as usize - 4) % n].clone(),
    _ => "gen.js".to_string(),
  }
}

fn strategy() -> BoxedStrategy<Case> {
  let cfg = GenCfg::positional();
  (text(true, 14), abs_map(cfg), any::<bool>(), 0u8..8u8, 0u8..8u8, prop_oneof![1 => Just(vec![]), 2 => vec(0u8..4u8, 1..=3)])
    .prop_map(move |(t, am, dups, name_sel, f, wraps)| {
      let am = if dups { am.with_dups() } else { am };
      let map = concretize_map(&t, &am, true);
      let full = match f {
        0 => Some((Some("text of a file that went through a loader\nsecond line;\n".to_string()), false)),
        1 => Some((Some(t.clone()), true)),
        2 => Some((None, true)),
        3 => Some((None, false)),
        _ => None,
      };
      Case { text: t, map, name_sel, full, wraps }
    })
    .boxed()
}

/// attribution of every byte according to a list of (text-less) segments
fn attr_from_final(st: &Stream, text: &str, columns: bool) -> Vec<AttrFull> {
  let (pos, _) = positions(text);
  pos
    .iter()
    .map(|(l, c)| {
      if columns {
        let mut best = None;
        for ch in &st.chunks {
          if ch.line == *l && ch.col <= *c {
            best = Some(ch);
          }
        }
        st.attr_of(&best.and_then(|b| b.orig))
      } else {
        let first = st.chunks.iter().find(|ch| ch.line == *l && ch.orig.is_some());
        st.attr_of(&first.and_then(|b| b.orig)).map(|(f, ct, ol, _, _)| (f, ct, ol, 0, None))
      }
    })
    .collect()
}

fn cmp(what: &str, text: &str, got: &[AttrFull], want: &[AttrFull], columns: bool, extra: &str) -> Result<(), String> {
  let (pos, _) = positions(text);
  for i in 0..text.len() {
    let (g, w) = if columns {
      (got[i].clone(), want[i].clone())
    } else {
      (
        got[i].clone().map(|a| (a.0, a.1, a.2, 0, None)),
        want[i].clone().map(|a| (a.0, a.1, a.2, 0, None)),
      )
    };
    if g != w {
      return Err(format!(
        "{what} columns={columns}: byte {i} ({}:{}) of {text:?} is attributed to {g:?}, lookup in the given map says {w:?}; {extra}",
        pos[i].0, pos[i].1
      ));
    }
  }
  Ok(())
}

impl Prop for C08 {
  type Case = Case;
  const ID: &'static str = "C08";
  fn rule(&self) -> String {
    "ASCII text T (0-14 tokens) and a consistent map M (0-8 sorted segments on char positions of T or the end \
     position, now and then a second segment at the same position so that the first has zero extent, 1-/4-/5-field, 1-3 sources, 0-3 names, contents absent/generic/identity, sourceRoot none/''/'rt'/'rt/'); \
     the same (T, M) is served by SourceMapSource and by a user-defined Source calling stream_chunks_default, with \
     columns x final_source in {t,f}^2, and through map() of ConcatSource[sms, RawSource('')] and of ConcatSource[OriginalSource(1 or c characters), sms] (c: column of a segment of M on a later line); every byte is compared \
     with lookup(M) computed on the generated segment list. Non-trivial: M has >=2 segments on one line or a line \
     without segments between mapped lines, and >=1 unmapped byte and >=1 mapped byte; distinct by hash of the case JSON".into()
  }
  fn legs(&self, _tier: Tier) -> Vec<Leg<Case>> {
    vec![Leg { name: "(T, M) pairs", source: Cases::Generated(Box::new(strategy), 500_000, 6_000_000) }]
  }
  fn check(&self, case: &Case) -> CheckResult {
    let (t, m) = (&case.text, &case.map);
    let r = guard(|| -> Result<CaseInfo, String> {
      let name = sms_name(case);
      let mk_sms = || match &case.full {
        None => SourceMapSource::new(WithoutOriginalOptions { value: t.clone(), name: name.clone(), source_map: source_map(m) }),
        Some((original, remove)) => SourceMapSource::new(SourceMapSourceOptions {
          value: t.clone(),
          name: name.clone(),
          source_map: source_map(m),
          original_source: original.clone(),
          inner_source_map: None,
          remove_original_source: *remove,
        }),
      };
      let shared = mk_sms();
      let mk_custom = || CustomSource { text: t.clone(), map: Some(source_map(m)) };
      let (_, end) = positions(t);
      let mut mapped_any = false;
      let mut unmapped_any = false;
      for columns in [true, false] {
        let want = lookup_all(m, t, columns);
        mapped_any |= want.iter().any(|a| a.is_some());
        unmapped_any |= want.iter().any(|a| a.is_none());
        // (1) normal mode
        // (1) and (2) are asked of ONE object, all four modes in turn; the other routes build fresh ones
        let st = stream(&shared, &opts(columns, false));
        let (stext, sat) = st.attr();
        if &stext != t {
          return Err(format!("columns={columns}: stream reassembles to {stext:?}, not {t:?}"));
        }
        if st.info != end {
          return Err(format!("columns={columns}: end info {:?}, text ends at {end:?}", st.info));
        }
        cmp("streamed directly", t, &sat, &want, columns, &format!("chunks={:?}", st.chunks))?;
        // names are dropped with columns=false
        if !columns && st.chunks.iter().any(|c| c.orig.is_some_and(|o| o.name.is_some())) {
          return Err("columns=false: a chunk carries a name".into());
        }
        // declared tables
        if !t.is_empty() {
          let want_src: Vec<(u32, String, Option<String>)> = m
            .sources
            .iter()
            .enumerate()
            .map(|(i, s)| (i as u32, root_join(m.root.as_deref(), s), m.contents.get(i).cloned()))
            .collect();
          if st.sources != want_src {
            return Err(format!("columns={columns}: declared sources {:?}, the map has {want_src:?}", st.sources));
          }
          let want_names: Vec<(u32, String)> =
            if columns { m.names.iter().enumerate().map(|(i, n)| (i as u32, n.clone())).collect() } else { vec![] };
          if st.names != want_names {
            return Err(format!("columns={columns}: declared names {:?}, expected {want_names:?}", st.names));
          }
        }
        // (2) final mode through the hook
        let fs = stream(&shared, &opts(columns, true));
        if fs.info != end {
          return Err(format!("columns={columns} final_source: end info {:?}, text ends at {end:?}", fs.info));
        }
        let fat = attr_from_final(&fs, t, columns);
        cmp("final-source stream", t, &fat, &want, columns, &format!("chunks={:?}", fs.chunks))?;
        // (3) through map() of an enclosing source
        let enclosing = ConcatSource::new([mk_sms().boxed(), RawSource::from("").boxed()]);
        let emap = enclosing.map(&opts(columns, false));
        let eat = attr_from_map(emap.as_ref(), t, columns)?;
        cmp("map() of an enclosing ConcatSource", t, &eat, &want, columns, &format!("mappings={:?}", emap.as_ref().map(|m| m.mappings().to_string())))?;
        // (3c) ... with other enclosing sources in between (a ReplaceSource without replacements, a CachedSource,
        // ConcatSources): each hands the chunks, sources and names on, translating indices where it keeps tables of its own
        if !case.wraps.is_empty() {
          let wrapped = || {
            let mut s: BoxSource = mk_sms().boxed();
            for w in &case.wraps {
              s = match w % 4 {
                0 => rspack_sources::ReplaceSource::new(s).boxed(),
                1 => rspack_sources::CachedSource::new(s).boxed(),
                2 => ConcatSource::new([s, RawSource::from("").boxed()]).boxed(),
                _ => ConcatSource::new([s]).boxed(),
              };
            }
            s
          };
          let ws = stream(&wrapped(), &opts(columns, false));
          let (wtext, wat) = ws.attr();
          if &wtext != t {
            return Err(format!("columns={columns}: stream through {:?} reassembles to {wtext:?}, not {t:?}", case.wraps));
          }
          cmp(&format!("streamed through enclosing sources {:?}", case.wraps), t, &wat, &want, columns, &format!("chunks={:?}", ws.chunks))?;
          let enclosing = ConcatSource::new([wrapped(), RawSource::from("").boxed()]);
          let emap = enclosing.map(&opts(columns, false));
          let eat = attr_from_map(emap.as_ref(), t, columns)?;
          cmp(
            &format!("map() of ConcatSource[{:?}(sms), \"\"]", case.wraps),
            t,
            &eat,
            &want,
            columns,
            &format!("mappings={:?}", emap.as_ref().map(|m| m.mappings().to_string())),
          )?;
        }
        // (3b) ... behind a sibling that is mapped right up to the junction (no line break): the sibling is 1
        // character long, or as long as the column of one of M's segments on a later line; the characters of T
        // are looked up behind it (full columns only: with columns=false T's first line shares its generated
        // line with the sibling and the line's first mapped segment is the sibling's)
        if columns {
          let mut heads: Vec<usize> = vec![1];
          for sg in m.segs.iter().filter(|s| s.line >= 2 && s.col > 0) {
            if !heads.contains(&(sg.col as usize)) && heads.len() < 3 {
              heads.push(sg.col as usize);
            }
          }
          for h in heads {
            let head = "h".repeat(h);
            let enclosing = ConcatSource::new([rspack_sources::OriginalSource::new(head.clone(), "head.js").boxed(), mk_sms().boxed()]);
            let emap = enclosing.map(&opts(true, false));
            let whole = format!("{head}{t}");
            let eat = attr_from_map(emap.as_ref(), &whole, true)?;
            cmp(
              &format!("map() of ConcatSource[OriginalSource({head:?}), sms]"),
              t,
              &eat[h..],
              &want,
              true,
              &format!("mappings={:?}", emap.as_ref().map(|m| m.mappings().to_string())),
            )?;
          }
        }
        // (4) the user-defined source through the public helper: identical streams
        for final_source in [false, true] {
          let a = stream(&mk_sms(), &opts(columns, final_source));
          let b = stream(&mk_custom(), &opts(columns, final_source));
          if a.chunks != b.chunks || a.sources != b.sources || a.names != b.names || a.info != b.info {
            return Err(format!(
              "columns={columns} final_source={final_source}: SourceMapSource and a user-defined source using stream_chunks_default stream differently: {:?} vs {:?}",
              a.chunks, b.chunks
            ));
          }
        }
      }
      let multi = m.segs.windows(2).any(|w| w[0].line == w[1].line);
      let lines: Vec<u32> = m.segs.iter().filter(|s| s.orig.is_some()).map(|s| s.line).collect();
      let gap = lines.windows(2).any(|w| w[1] > w[0] + 1);
      Ok(
        CaseInfo::nt((multi || gap) && mapped_any && unmapped_any)
          .class(multi, ">=2 segments on a line")
          .class(gap, "gap line between mapped lines")
          .class(m.segs.iter().any(|s| (s.line, s.col) == end), "zero-width segment at the end of the text")
          .class(m.segs.iter().any(|s| s.orig.is_none()), "1-field (unmapped) segment")
          .class(m.segs.windows(2).any(|w| (w[0].line, w[0].col) == (w[1].line, w[1].col)), "two segments at one position (the first has zero extent)")
          .class(m.root.as_deref().is_some_and(|r| !r.is_empty()), "non-empty sourceRoot")
          .class(m.contents.is_empty(), "no sourcesContent")
          .class(case.full.is_some(), "built through the full options (inner_source_map: None)")
          .class(name != "gen.js", "the SourceMapSource is named like a file of M")
          .class(name != "gen.js" && matches!(&case.full, Some((Some(_), _))), "named like a file of M and given another original_source"),
      )
    });
    match r {
      Err(p) => Err(p),
      Ok(x) => x,
    }
  }
}
