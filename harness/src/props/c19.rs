//! C19 Unsafe code never acts outside its preconditions

use std::collections::BTreeMap;

use proptest::prelude::*;
use serde::{Deserialize, Serialize};

use crate::build::build;
use crate::gen::{tree, GenCfg};
use crate::observe::{guard, opts};
use crate::props::common::*;
use crate::props::{c01, c16, c17, c18};
use crate::runner::*;
use crate::spec::Spec;

pub struct C19;

#[derive(Clone, Debug, Serialize, Deserialize)]
pub enum Case {
  /// a pair of rope construction programs (as in C16, incl. empty multi-piece ropes)
  Rope(c16::Case),
  /// a wild source tree (as in C01 / C17): every method, streaming with retained borrows
  Tree(Spec),
  /// a concurrent program with a schedule (as in C18)
  Sched(c18::Case),
}

pub const SITE_NAMES: &[&str] = &[
  "rope.get_byte_slice same-piece get_unchecked",
  "rope.get_byte_slice piece get_unchecked",
  "rope.byte_slice_unchecked single piece str::get_unchecked",
  "rope.byte_slice_unchecked same-piece get_unchecked",
  "rope.byte_slice_unchecked same-piece str::get_unchecked",
  "rope.byte_slice_unchecked piece get_unchecked",
  "rope.byte_slice_unchecked first piece str::get_unchecked",
  "rope.byte_slice_unchecked last piece str::get_unchecked",
  "with_indices.substring byte_slice_unchecked",
  "encoder.drain(full) from_utf8_unchecked",
  "encoder.drain(lines) from_utf8_unchecked",
  "replace_source transmute &Replacement",
  "cached_source transmute &SourceMap",
  "helpers(&str).byte_slice_unchecked",
];

fn rope_case() -> BoxedStrategy<Case> {
  (c16::prog_strategy(4), c16::prog_strategy(3)).prop_map(|(p, q)| Case::Rope(c16::Case { p, q })).boxed()
}
fn tree_case() -> BoxedStrategy<Case> {
  tree(GenCfg::wild()).prop_map(Case::Tree).boxed()
}

/// strings produced through from_utf8_unchecked are valid (ASCII) strings
fn validate_maps(spec: &Spec) -> CheckResult {
  for columns in [true, false] {
    let m = match lib(spec, "map()", || build(spec).map(&opts(columns, false)))? {
      Lib::Ok(m) => m,
      Lib::Known => return Ok(CaseInfo { excluded_known: true, ..Default::default() }),
    };
    if let Some(m) = m {
      let b = m.mappings().as_bytes();
      if std::str::from_utf8(b).is_err() || !b.is_ascii() {
        return Err(format!("mappings produced through from_utf8_unchecked are not ASCII: {b:?}"));
      }
    }
  }
  Ok(CaseInfo::default())
}

impl Prop for C19 {
  type Case = Case;
  const ID: &'static str = "C19";
  fn rule(&self) -> String {
    "the generators of C16 (rope program pairs incl. empty multi-piece ropes, all slice ranges), C01/C17 (wild trees: \
     multi-byte text, out-of-text/out-of-table sorted maps, every method and all four streaming modes, callbacks keep \
     every borrowed chunk/name/content until the stream call has returned and then read them) and C18 (programs x \
     schedules; borrowed data re-read after all threads finished), run with (1) a guarded assertion of the stated \
     precondition immediately before each of the 14 unsafe operations (hook), (2) std's own unsafe-precondition checks \
     (checked profile), (3) the same legs again on the release-semantics build, (4) thorough: libFuzzer targets rope_prog \
     and tree_prog under AddressSanitizer. Non-trivial: the case executed >=1 unsafe site with a boundary argument \
     (index 0 / last, empty range, range ending at a piece border; counted by the hook), for schedules: a context switch \
     inside a library window; distinct by hash of the case JSON".into()
  }
  fn legs(&self, _tier: Tier) -> Vec<Leg<Case>> {
    vec![
      Leg { name: "rope programs", source: Cases::Generated(Box::new(rope_case), 150_000, 2_500_000) },
      Leg { name: "wild trees", source: Cases::Generated(Box::new(tree_case), 150_000, 2_500_000) },
      Leg { name: "SourceMapSource with a line longer than 64 KiB", source: Cases::Generated(Box::new(|| crate::gen::huge_line_tree().prop_map(Case::Tree).boxed()), 400, 6_000) },
      Leg {
        name: "programs x schedules",
        source: Cases::Generated(Box::new(|| c18::random_case().prop_map(Case::Sched).boxed()), 8_000, 150_000),
      },
    ]
  }
  fn stages(&self, ctx: &Ctx) -> Vec<Stage> {
    let mut v = vec![plain_stage("C19", ctx)];
    if ctx.tier == Tier::Thorough {
      v.extend(crate::fuzz::campaigns("C19", &["rope_prog", "tree_prog", "sched_prog"], ctx));
    }
    v
  }
  fn extra_coverage(&self, _tier: Tier) -> BTreeMap<String, serde_json::Value> {
    let counters = rspack_sources::verif::site_counters();
    let per_site: BTreeMap<String, serde_json::Value> = SITE_NAMES
      .iter()
      .enumerate()
      .map(|(i, n)| (format!("{i:02} {n}"), serde_json::json!({"executions": counters[i].0, "with_boundary_argument": counters[i].1})))
      .collect();
    [("unsafe_sites".to_string(), serde_json::to_value(per_site).unwrap())].into_iter().collect()
  }
  fn check(&self, case: &Case) -> CheckResult {
    let before = rspack_sources::verif::thread_counters();
    let r = match case {
      Case::Rope(c) => C16Shim.check(c),
      Case::Tree(spec) => (|| {
        let a = c17::check_tree(spec)?;
        if a.excluded_known {
          return Ok(a);
        }
        let b = c01::C01.check(&TreeCase { spec: spec.clone() })?;
        if b.excluded_known {
          return Ok(b);
        }
        let c = validate_maps(spec)?;
        if c.excluded_known {
          return Ok(c);
        }
        Ok(a)
      })(),
      Case::Sched(c) => c18::C18.check(c),
    };
    let after = rspack_sources::verif::thread_counters();
    let mut info = r?;
    let boundary = after.1 > before.1;
    info.nontrivial = match case {
      Case::Sched(_) => info.nontrivial,
      _ => boundary,
    };
    info.classes.retain(|c| !c.starts_with("has ") && !c.starts_with("depth"));
    Ok(
      info
        .class(boundary, "executed an unsafe site with a boundary argument")
        .class(after.0 > before.0, "executed an unsafe site")
        .class(matches!(case, Case::Rope(_)), "rope program")
        .class(matches!(case, Case::Tree(_)), "wild tree")
        .class(matches!(case, Case::Sched(_)), "program x schedule"),
    )
  }
}

struct C16Shim;
impl C16Shim {
  fn check(&self, c: &c16::Case) -> CheckResult {
    guard(|| c16::C16.check(c)).unwrap_or_else(Err)
  }
}
