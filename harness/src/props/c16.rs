//! C16 Rope behaves exactly like the string it represents

use std::ops::Bound;

use proptest::collection::vec;
use proptest::prelude::*;
use rspack_sources::Rope;
use serde::{Deserialize, Serialize};

use crate::model::rope_prog::*;
use crate::observe::guard;
use crate::runner::*;

pub struct C16;

#[derive(Clone, Debug, Serialize, Deserialize)]
pub struct Case {
  pub p: Prog,
  pub q: Prog,
}

pub fn prog_strategy(depth: u32) -> BoxedStrategy<Prog> {
  // the long pieces (index >= 15) are drawn less often than the short ones
  let piece = || prop_oneof![12 => 0usize..15, 1 => 15usize..PIECES.len()];
  let leaf = prop_oneof![
    1 => Just(Prog::New),
    3 => piece().prop_map(Prog::From),
    3 => vec(piece(), 0..=4).prop_map(Prog::FromIter),
    // ropes of many short pieces (lookups that behave differently beyond a handful of pieces)
    1 => vec(0usize..15, 9..=24).prop_map(Prog::FromIter),
  ];
  leaf
    .prop_recursive(depth, 24, 3, move |inner| {
      prop_oneof![
        3 => (inner.clone(), piece()).prop_map(|(x, i)| Prog::Add(Box::new(x), i)),
        2 => (inner.clone(), inner.clone()).prop_map(|(x, y)| Prog::Append(Box::new(x), Box::new(y))),
        2 => (inner.clone(), 0usize..9, 0usize..9).prop_map(|(x, a, b)| Prog::Slice(Box::new(x), a, b)),
        1 => (inner.clone(), 0usize..4).prop_map(|(x, k)| Prog::Line(Box::new(x), k)),
      ]
    })
    .boxed()
}

fn strategy() -> BoxedStrategy<Case> {
  (prog_strategy(4), prog_strategy(3)).prop_map(|(p, q)| Case { p, q }).boxed()
}

macro_rules! ck {
  ($name:expr, $got:expr, $want:expr, $ctx:expr) => {{
    let (g, w) = ($got, $want);
    if g != w {
      return Err(format!("{}: rope answers {:?}, the flat string {:?} answers {:?}", $name, g, $ctx, w));
    }
  }};
}

/// all observers of one rope against its flat string
pub fn check_unary(rope: &Rope<'_>, s: &str) -> Result<(), String> {
  ck!("len", rope.len(), s.len(), s);
  ck!("is_empty", rope.is_empty(), s.is_empty(), s);
  ck!("to_string", rope.to_string(), s.to_string(), s);
  ck!("to_bytes", rope.to_bytes().to_vec(), s.as_bytes().to_vec(), s);
  ck!("char_indices", rope.char_indices().collect::<Vec<_>>(), s.char_indices().collect::<Vec<_>>(), s);
  ck!("lines", rope.lines().map(|l| l.to_string()).collect::<Vec<_>>(), model_lines(s), s);
  // the iterators through the std adaptors (which may be specialised): count / last / nth after
  // 0, 1, 2 steps
  {
    let ml = model_lines(s);
    let mc: Vec<(usize, char)> = s.char_indices().collect();
    for k in 0..3usize {
      let mut it = rope.lines();
      let mut ci = rope.char_indices();
      for _ in 0..k {
        it.next();
        ci.next();
      }
      ck!(format!("lines() advanced {k} times, then count()"), it.count(), ml.len().saturating_sub(k), s);
      ck!(format!("char_indices() advanced {k} times, then count()"), ci.count(), mc.len().saturating_sub(k), s);
      ck!(format!("lines().skip({k}).count()"), rope.lines().skip(k).count(), ml.len().saturating_sub(k), s);
      ck!(format!("lines().nth({k})"), rope.lines().nth(k).map(|l| l.to_string()), ml.get(k).cloned(), s);
      ck!(format!("char_indices().nth({k})"), rope.char_indices().nth(k), mc.get(k).copied(), s);
    }
    ck!("lines().last()", rope.lines().last().map(|l| l.to_string()), ml.last().cloned(), s);
    ck!("char_indices().last()", rope.char_indices().last(), mc.last().copied(), s);
    let mut it = rope.lines();
    it.next();
    ck!("lines() advanced once, then collected", it.map(|l| l.to_string()).collect::<Vec<_>>(), ml.iter().skip(1).cloned().collect::<Vec<_>>(), s);
  }
  for i in (0..s.len() + 2).filter(|i| s.len() <= 48 || *i < 4 || *i + 4 > s.len() || i % 61 == 0) {
    ck!(format!("get_byte({i})"), rope.get_byte(i), s.as_bytes().get(i).copied(), s);
    if i < s.len() {
      ck!(format!("byte({i})"), rope.byte(i), s.as_bytes()[i], s);
    }
  }
  for c in ['\n', 'a', 'é', 'b', '😀'] {
    ck!(format!("ends_with({c:?})"), rope.ends_with(c), s.ends_with(c), s);
  }
  // the last character itself, and characters that merely share low bits / a byte with it
  if let Some(last) = s.chars().last() {
    let mut probes = vec![last];
    let cp = last as u32;
    for k in [0x100u32, 0x3000, 0x1f600 & !0xff] {
      if let Some(c) = char::from_u32((cp & 0xff) | k) {
        probes.push(c);
      }
    }
    if let Some(b) = s.as_bytes().last() {
      probes.push(*b as char);
    }
    for c in probes {
      ck!(format!("ends_with({c:?})"), rope.ends_with(c), s.ends_with(c), s);
    }
  }
  ck!("== &str (equal)", *rope == s, true, s);
  ck!("== str (equal)", *rope == *s, true, s);
  ck!("== Rope::from(str)", *rope == Rope::from(s), true, s);
  {
    // the other one-piece constructors
    let owned = s.to_string();
    let cow: std::borrow::Cow<str> = std::borrow::Cow::Borrowed(s);
    ck!("== Rope::from(&String)", *rope == Rope::from(&owned), true, s);
    ck!("Rope::from(&Cow) == rope", Rope::from(&cow) == *rope, true, s);
    ck!("Rope::from(&String).len()", Rope::from(&owned).len(), s.len(), s);
    ck!("Rope::from(&Cow).to_string()", Rope::from(&cow).to_string(), s.to_string(), s);
  }
  ck!("Rope::from(str) == rope", Rope::from(s) == *rope, true, s);
  // a same-length different string
  if !s.is_empty() {
    let mut other: Vec<char> = s.chars().collect();
    let last = other.len() - 1;
    other[last] = if other[last] == 'a' { 'b' } else if other[last].len_utf8() == 1 { 'a' } else { other[last] };
    let other: String = other.into_iter().collect();
    // ... and the same characters in another order (same length in bytes, character boundaries elsewhere)
    let cs: Vec<char> = s.chars().collect();
    let rot_l: String = cs[1..].iter().chain(cs[..1].iter()).collect();
    let rot_r: String = cs[cs.len() - 1..].iter().chain(cs[..cs.len() - 1].iter()).collect();
    let rev: String = cs.iter().rev().collect();
    for other in [other, rot_l, rot_r, rev] {
      if other.len() == s.len() && other != s {
        ck!(format!("== &str (different, same length: {other:?})"), *rope == other.as_str(), false, s);
        ck!(format!("== str (different, same length: {other:?})"), *rope == *other.as_str(), false, s);
        ck!(format!("== rope (different, same length: {other:?})"), *rope == Rope::from(other.as_str()), false, s);
        ck!(format!("rope (different, same length: {other:?}) == rope"), Rope::from(other.as_str()) == *rope, false, s);
      }
    }
  }
  // slicing: every (a, b) in [0, len+1]^2; for long strings a sample of positions around the ends,
  // the middle and multiples of 64 (the quadratic sweep stays for everything up to 48 bytes)
  let positions: Vec<usize> = if s.len() <= 48 {
    (0..s.len() + 2).collect()
  } else {
    let mut v: Vec<usize> = vec![0, 1, 2, 3, s.len() / 2, s.len() - 2, s.len() - 1, s.len(), s.len() + 1];
    // (the first and the last four multiples of 64: the sweep is quadratic in the number of positions)
    let mult: Vec<usize> = (64..s.len()).step_by(64).collect();
    for (j, k) in mult.iter().copied().enumerate() {
      if j < 4 || j + 4 >= mult.len() {
        v.extend([k - 2, k - 1, k, k + 1, k + 2, k + 3]);
      }
    }
    v.sort_unstable();
    v.dedup();
    v
  };
  for &a in &positions {
    for &e in &positions {
      let want = if a <= e && e <= s.len() && s.is_char_boundary(a) && s.is_char_boundary(e) { Some(s[a..e].to_string()) } else { None };
      let got = rope.get_byte_slice(a..e);
      ck!(format!("get_byte_slice({a}..{e})"), got.as_ref().map(|x| x.to_string()), want.clone(), s);
      if let (Some(g), Some(w)) = (&got, &want) {
        // the slice is a rope in its own right
        ck!(format!("get_byte_slice({a}..{e}).len()"), g.len(), w.len(), s);
        let h = floor_cb(w, w.len() / 2);
        ck!(format!("get_byte_slice({a}..{e}) sliced again at {h}.."), g.get_byte_slice(h..).map(|x| x.to_string()), Some(w[h..].to_string()), s);
        // the unchecked twin, inside its documented precondition (in bounds, ordered, on char boundaries)
        let u = unsafe { rope.byte_slice_unchecked(a..e) };
        ck!(format!("byte_slice_unchecked({a}..{e})"), u.to_string(), w.clone(), s);
        ck!(format!("byte_slice_unchecked({a}..{e}).len()"), u.len(), w.len(), s);
        ck!(format!("byte_slice_unchecked({a}..{e}) sliced again at {h}.."), u.get_byte_slice(h..).map(|x| x.to_string()), Some(w[h..].to_string()), s);
        ck!(format!("byte_slice_unchecked({a}..{e}) == its string"), u == w.as_str(), true, s);
        ck!(format!("byte_slice_unchecked({a}..{e}).lines()"), u.lines().map(|l| l.to_string()).collect::<Vec<_>>(), model_lines(w), s);
      }
    }
  }
  // the eight RangeBounds shapes on a few positions
  let pts: Vec<usize> = vec![0, s.len() / 2, s.len(), s.len() + 1, usize::MAX];
  for &a in &pts {
    for &e in &pts {
      let shapes: Vec<(Bound<usize>, Bound<usize>)> = vec![
        (Bound::Included(a), Bound::Excluded(e)),
        (Bound::Included(a), Bound::Included(e)),
        (Bound::Excluded(a), Bound::Excluded(e)),
        (Bound::Excluded(a), Bound::Included(e)),
        (Bound::Included(a), Bound::Unbounded),
        (Bound::Excluded(a), Bound::Unbounded),
        (Bound::Unbounded, Bound::Excluded(e)),
        (Bound::Unbounded, Bound::Included(e)),
      ];
      for sh in shapes {
        let lo: Option<usize> = match sh.0 {
          Bound::Included(x) => Some(x),
          Bound::Excluded(x) => x.checked_add(1),
          Bound::Unbounded => Some(0),
        };
        let hi: Option<usize> = match sh.1 {
          Bound::Included(x) => x.checked_add(1),
          Bound::Excluded(x) => Some(x),
          Bound::Unbounded => Some(s.len()),
        };
        let want = match (lo, hi) {
          (Some(lo), Some(hi)) if lo <= hi && hi <= s.len() && s.is_char_boundary(lo) && s.is_char_boundary(hi) => Some(s[lo..hi].to_string()),
          _ => None,
        };
        ck!(format!("get_byte_slice({sh:?})"), rope.get_byte_slice(sh).map(|x| x.to_string()), want, s);
      }
    }
  }
  // ropes recombined from slices of this very rope (they share its backing text): equal length,
  // usually different content -- equality must be decided on the bytes, not on where pieces start
  for k in 0..=s.len() {
    let m = s.len() - k;
    if !s.is_char_boundary(k) || !s.is_char_boundary(m) {
      continue;
    }
    // long strings: the ends and every 61st position
    if s.len() > 48 && k > 6 && k + 6 < s.len() && k % 61 != 0 {
      continue;
    }
    if let (Some(a), Some(b), Some(c)) = (rope.get_byte_slice(0..k), rope.get_byte_slice(0..m), rope.get_byte_slice(k..)) {
      // head(k) + head(len-k)
      let mut x = a.clone();
      x.append(b);
      let xs = format!("{}{}", &s[..k], &s[..m]);
      ck!(format!("recombined head({k})+head({m}) == rope"), x == *rope, xs == s, s);
      ck!(format!("rope == recombined head({k})+head({m})"), *rope == x, xs == s, s);
      ck!(format!("recombined head({k})+head({m}) to_string"), x.to_string(), xs.clone(), s);
      // rotation: tail(k) + head(k)
      let mut y = c;
      y.append(a);
      let ys = format!("{}{}", &s[k..], &s[..k]);
      ck!(format!("rotation at {k} == rope"), y == *rope, ys == s, s);
      ck!(format!("rope starts_with rotation at {k}"), rope.starts_with(&y), s.starts_with(&ys), s);
    }
  }
  // lines of slices are slices of lines: a derived rope is again a faithful rope
  if let Some(sl) = rope.get_byte_slice(0..floor_cb(s, s.len() / 2)) {
    let ss = &s[0..floor_cb(s, s.len() / 2)];
    ck!("slice.lines", sl.lines().map(|l| l.to_string()).collect::<Vec<_>>(), model_lines(ss), ss);
    ck!("slice.char_indices", sl.char_indices().collect::<Vec<_>>(), ss.char_indices().collect::<Vec<_>>(), ss);
  }
  Ok(())
}

pub fn check_binary(r1: &Rope<'static>, s1: &str, r2: &Rope<'static>, s2: &str) -> Result<(), String> {
  let ctx = format!("{s1:?} vs {s2:?}");
  ck!("starts_with", r1.starts_with(r2), s1.starts_with(s2), ctx);
  ck!("starts_with (reverse)", r2.starts_with(r1), s2.starts_with(s1), ctx);
  ck!("rope == rope", *r1 == *r2, s1 == s2, ctx);
  ck!("rope == rope (reverse)", *r2 == *r1, s1 == s2, ctx);
  ck!("rope == &str", *r1 == s2, s1 == s2, ctx);
  ck!("rope == str", *r1 == *s2, s1 == s2, ctx);
  ck!("rope == str (reverse)", *r2 == *s1, s1 == s2, ctx);
  // prefixes of the first rope: every char-boundary prefix, built as one piece and as two
  for k in 0..=s1.len() {
    if s1.is_char_boundary(k) {
      let pre = Rope::from(&s1[..k]);
      ck!(format!("starts_with(prefix of {k} bytes)"), r1.starts_with(&pre), true, s1);
      let mid = floor_cb(s1, k / 2);
      let pre2: Rope = Rope::from_iter([&s1[..mid], &s1[mid..k]]);
      ck!(format!("starts_with(two-piece prefix of {k} bytes)"), r1.starts_with(&pre2), true, s1);
    }
  }
  Ok(())
}

fn pieces_of(p: &Prog) -> usize {
  match p {
    Prog::New | Prog::From(_) => 1,
    Prog::FromIter(v) => v.len(),
    Prog::Add(x, _) => pieces_of(x) + 1,
    Prog::Append(x, y) => pieces_of(x) + pieces_of(y),
    Prog::Slice(x, _, _) | Prog::Line(x, _) => pieces_of(x),
  }
}
fn has_special_piece(p: &Prog) -> bool {
  let sp = |i: &usize| {
    let s = PIECES[*i % PIECES.len()];
    s.is_empty() || !s.is_ascii()
  };
  match p {
    Prog::New => true,
    Prog::From(i) => sp(i),
    Prog::FromIter(v) => v.iter().any(sp),
    Prog::Add(x, i) => sp(i) || has_special_piece(x),
    Prog::Append(x, y) => has_special_piece(x) || has_special_piece(y),
    Prog::Slice(x, _, _) | Prog::Line(x, _) => has_special_piece(x),
  }
}

fn check_case(case: &Case) -> CheckResult {
  let r = guard(|| -> Result<CaseInfo, String> {
    let (r1, s1) = eval(&case.p);
    let (r2, s2) = eval(&case.q);
    check_unary(&r1, &s1)?;
    check_unary(&r2, &s2)?;
    check_binary(&r1, &s1, &r2, &s2)?;
    let multi = pieces_of(&case.p) >= 2;
    Ok(
      CaseInfo::nt(multi && has_special_piece(&case.p))
        .class(s1.is_empty() && multi, "empty multi-piece rope")
        .class(!s1.is_ascii(), "multi-byte text")
        .class(s1 == s2 && case.p != case.q, "equal strings, different programs")
        .class(matches!(case.p, Prog::Line(..)) || matches!(case.p, Prog::Slice(..)), "derived rope (slice / line) at the root"),
    )
  });
  match r {
    Err(p) => Err(p),
    Ok(x) => x,
  }
}

impl Prop for C16 {
  type Case = Case;
  const ID: &'static str = "C16";
  fn rule(&self) -> String {
    "pairs of construction programs over new/from/from_iter/add/append/byte_slice/lines (depth<=4 and <=3) on 18 pieces (incl. three long ones with a multi-byte character as 256th / 512th character) \
     incl. '', '\\n' and 1-4 byte characters, each evaluated to a Rope and to a flat String; every observer is compared with \
     the String, get_byte_slice for ALL (a,b) in [0,len+1]^2 and all eight RangeBounds shapes incl. usize::MAX, binary \
     observers on the pair and on every prefix; plus (exhaustive) every program of depth<=2 over 5 pieces. Non-trivial: \
     the first rope has >=2 pieces and one of them is empty or multi-byte; distinct by hash of the case JSON".into()
  }
  fn legs(&self, _tier: Tier) -> Vec<Leg<Case>> {
    vec![
      Leg { name: "random program pairs", source: Cases::Generated(Box::new(strategy), 300_000, 4_000_000) },
      Leg {
        name: "all programs of depth<=2 over 5 pieces (exhaustive)",
        source: Cases::Enumerated(Box::new(|tier| {
          let all = enumerate(tier.pick(1, 2));
          let n = all.len();
          Box::new(all.into_iter().enumerate().map(move |(i, p)| Case { q: if i % 2 == 0 { Prog::From(1) } else { Prog::FromIter(vec![1, 0, 4 % n.max(1)]) }, p }))
        })),
      },
    ]
  }
  fn extra_coverage(&self, tier: Tier) -> std::collections::BTreeMap<String, serde_json::Value> {
    [("exhaustive_subspace".to_string(), format!("every program of depth <= {} over the pieces {:?}", tier.pick(1, 2), SMALL.iter().map(|i| PIECES[*i]).collect::<Vec<_>>()).into())].into_iter().collect()
  }
  fn stages(&self, ctx: &Ctx) -> Vec<Stage> {
    if ctx.tier == Tier::Thorough {
      crate::fuzz::campaigns("C16", &["rope_prog"], ctx)
    } else {
      vec![]
    }
  }
  fn check(&self, case: &Case) -> CheckResult {
    check_case(case)
  }
}
