//! C06 Composites preserve what their children attribute

use std::collections::BTreeMap;

use proptest::collection::vec;
use proptest::prelude::*;

use crate::build::build;
use crate::gen::{abs_repl, concretize_repls, normalize, repls_for, tree, GenCfg};
use crate::model::replace_attr::model_replace;
use crate::observe::{attr_from_map, guard, line_only_full, opts, positions, AttrFull};
use crate::props::common::*;
use crate::runner::*;
use crate::spec::{model_text, Spec};

pub struct C06;

fn child_cfg() -> GenCfg {
  GenCfg { depth: 2, ..GenCfg::positional() }
}

fn strategy() -> BoxedStrategy<TreeCase> {
  let cfg = child_cfg();
  let small = GenCfg { depth: 1, max_tokens: 3, ..cfg };
  prop_oneof![
    10 => (0u8..3u8, vec(tree(cfg), 2..=4)).prop_map(move |(how, children)| TreeCase {
      spec: normalize(Spec::Concat { how, children }, cfg)
    }),
    10 => (tree(cfg), repls_for(cfg, 4)).prop_map(move |(inner, (pool, abs))| {
      let t = model_text(&inner);
      let repls = concretize_repls(&t, &pool, &abs, false);
      TreeCase { spec: normalize(Spec::Replace { inner: Box::new(inner), repls }, cfg) }
    }),
    // counts the two shapes above never reach: a root over 9-40 children, and a root with 33-80 replacements over at
    // most six cut points (many replacements tie on (start, end, enforce) and differ in name and content: registration
    // order decides, and only a stable sort keeps it beyond a few dozen elements)
    1 => (0u8..5u8, vec(tree(small), 9..=40)).prop_map(move |(how, children)| TreeCase {
      spec: normalize(Spec::Concat { how, children }, cfg)
    }),
    1 => (tree(cfg), vec(any::<u16>(), 1..=6), vec(abs_repl(cfg), 33..=80)).prop_map(move |(inner, pool, abs)| {
      let t = model_text(&inner);
      let repls = concretize_repls(&t, &pool, &abs, false);
      TreeCase { spec: normalize(Spec::Replace { inner: Box::new(inner), repls }, cfg) }
    }),
  ]
  .boxed()
}

fn full_attr(spec: &Spec, text: &str, columns: bool) -> Result<(Vec<AttrFull>, Option<String>), String> {
  let map = guard(|| build(spec).map(&opts(columns, false))).map_err(|p| format!("map(columns={columns}): {p}"))?;
  let a = attr_from_map(map.as_ref(), text, columns)?;
  Ok((a, map.map(|m| m.mappings().to_string())))
}

fn rich(spec: &Spec) -> bool {
  // a child with a non-identity map and >=2 sources or a name
  spec.any(&|s| match s {
    Spec::Sms { map, .. } | Spec::SmsInner { map, .. } => {
      map.segs.iter().any(|g| g.orig.is_some()) && (map.sources.len() >= 2 || map.segs.iter().any(|g| g.orig.is_some_and(|o| o.name.is_some())))
    }
    _ => false,
  })
}

impl Prop for C06 {
  type Case = TreeCase;
  const ID: &'static str = "C06";
  fn rule(&self) -> String {
    "root is a ConcatSource over 2-4 (one case in 22: 9-40) children or a ReplaceSource with 0-4 (one case in 22: 33-80, over <= 6 cut points) replacements; children / inner are ASCII \
     trees of depth<=2 from gen::tree(positional) (SourceMapSource leaves with 1-3 sources, 0-3 names incl. duplicate \
     names, with/without sourcesContent, with inner maps that announce lazily). Concat: per byte of child k, \
     resolve(concat.map()) == resolve(child_k.map()) on (file, content, line, col, name); Replace: per byte against the \
     attribution model of the splice fed with the inner's observed chunk stream; columns=false per output line. \
     Non-trivial: some SourceMapSource leaf has a mapped segment and >=2 sources or a name; for a ReplaceSource root \
     additionally a cut strictly inside a mapped chunk; distinct by hash of the case JSON".into()
  }
  fn legs(&self, _tier: Tier) -> Vec<Leg<TreeCase>> {
    vec![Leg { name: "composites", source: Cases::Generated(Box::new(strategy), 400_000, 6_000_000) }]
  }
  fn check(&self, case: &TreeCase) -> CheckResult {
    let spec = &case.spec;
    let text = model_text(spec);
    let (pos, _) = positions(&text);
    let mut nt = rich(spec);
    let mut cut_inside = false;
    let mut warm_inner = false;
    for columns in [true, false] {
      let (got, mappings) = full_attr(spec, &text, columns)?;
      match spec {
        Spec::Concat { children, .. } => {
          let mut off = 0usize;
          let mut first: BTreeMap<u32, Option<(String, Option<String>, u32)>> = BTreeMap::new();
          for (k, c) in children.iter().enumerate() {
            let ct = model_text(c);
            let (ca, cm) = full_attr(c, &ct, columns)?;
            if columns {
              for i in 0..ct.len() {
                if ca[i] != got[off + i] {
                  return Err(format!(
                    "ConcatSource columns=true: byte {} ({}:{}) of {text:?} is byte {i} of child {k}; the composite attributes it to {:?}, the child alone to {:?}; mappings={mappings:?} child mappings={cm:?}",
                    off + i, pos[off + i].0, pos[off + i].1, got[off + i], ca[i]
                  ));
                }
              }
            } else {
              for i in 0..ct.len() {
                let e = first.entry(pos[off + i].0).or_insert(None);
                if e.is_none() {
                  *e = line_only_full(&ca[i]);
                }
              }
            }
            off += ct.len();
          }
          if !columns {
            for i in 0..text.len() {
              let w = first.get(&pos[i].0).cloned().unwrap_or(None);
              let g = line_only_full(&got[i]);
              if w != g {
                return Err(format!(
                  "ConcatSource columns=false: output line {} of {text:?} resolves to {g:?}; the first mapped child piece on it says {w:?}; mappings={mappings:?}",
                  pos[i].0
                ));
              }
            }
          }
        }
        Spec::Replace { inner, repls } => {
          let st = fresh_stream(inner, columns, false).map_err(|p| format!("inner stream: {p}"))?;
          let pieces = model_replace(&st, repls);
          let mtext: String = pieces.iter().map(|p| p.text.as_str()).collect();
          if mtext != text {
            return Err(format!("harness: attribution model text {mtext:?} != reference text {text:?}"));
          }
          cut_inside |= pieces.iter().any(|p| p.cut_inside_mapped);
          if columns {
            let mut off = 0;
            for p in &pieces {
              for j in 0..p.text.len() {
                if got[off + j] != p.attr {
                  return Err(format!(
                    "ReplaceSource columns=true: byte {} ({}:{}) of {text:?} ({} {:?}) resolves to {:?}, the splice model says {:?}; mappings={mappings:?} inner chunks={:?}",
                    off + j, pos[off + j].0, pos[off + j].1,
                    if p.is_repl { "replacement content" } else { "inner text" }, p.text, got[off + j], p.attr, st.chunks
                  ));
                }
              }
              off += p.text.len();
            }
          } else {
            let mut first: BTreeMap<u32, Option<(String, Option<String>, u32)>> = BTreeMap::new();
            let mut off = 0;
            for p in &pieces {
              if !p.text.is_empty() {
                let e = first.entry(pos[off].0).or_insert(None);
                if e.is_none() {
                  *e = line_only_full(&p.attr);
                }
              }
              off += p.text.len();
            }
            for i in 0..text.len() {
              let w = first.get(&pos[i].0).cloned().unwrap_or(None);
              let g = line_only_full(&got[i]);
              if w != g {
                return Err(format!(
                  "ReplaceSource columns=false: output line {} of {text:?} resolves to {g:?}, the splice model says {w:?}; mappings={mappings:?} inner chunks={:?}",
                  pos[i].0, st.chunks
                ));
              }
            }
          }
        }
        _ => return Err("harness: C06 case root must be Concat or Replace".into()),
      }
      // the same clause for a *warm* inner CachedSource: its replay hands the ReplaceSource other chunks (cut by the cached
      // map, made of several rope pieces when the inner source is a composite) than the cold stream did.  The model is fed
      // with the chunk stream of an equally warmed twin of the inner source; the ReplaceSource is asked map() twice.
      if let (true, Spec::Replace { inner, repls }) = (columns, spec) {
        if matches!(**inner, Spec::Cached(_)) {
          let st = guard(|| {
            let c = crate::build::build(inner);
            let _ = crate::observe::stream(&*c, &opts(true, false));
            crate::observe::stream(&*c, &opts(true, false))
          })
          .map_err(|p| format!("warm inner stream: {p}"))?;
          let map = guard(|| {
            let r = crate::build::build(spec);
            let _ = r.map(&opts(true, false));
            r.map(&opts(true, false))
          })
          .map_err(|p| format!("second map(): {p}"))?;
          let got_w = attr_from_map(map.as_ref(), &text, true)?;
          let pieces = model_replace(&st, repls);
          let mut off = 0;
          for p in &pieces {
            for j in 0..p.text.len() {
              if got_w[off + j] != p.attr {
                return Err(format!(
                  "ReplaceSource over a warm CachedSource, second map(): byte {} ({}:{}) of {text:?} ({} {:?}) resolves to {:?}, the splice model fed with the warm inner stream says {:?}; mappings={:?} inner chunks={:?}",
                  off + j, pos[off + j].0, pos[off + j].1,
                  if p.is_repl { "replacement content" } else { "inner text" }, p.text, got_w[off + j], p.attr,
                  map.as_ref().map(|m| m.mappings().to_string()), st.chunks
                ));
              }
            }
            off += p.text.len();
          }
          warm_inner = true;
        }
      }
    }
    if matches!(spec, Spec::Replace { .. }) {
      nt &= cut_inside;
    }
    let mut info = CaseInfo::nt(nt);
    tree_classes(spec, &mut info);
    Ok(
      info
        .class(matches!(spec, Spec::Replace { .. }), "root ReplaceSource")
        .class(matches!(spec, Spec::Concat { .. }), "root ConcatSource")
        .class(cut_inside, "cut strictly inside a mapped chunk")
        .class(warm_inner, "ReplaceSource over a warm CachedSource (second map())")
        .class(rich(spec), "leaf map with >=2 sources or a name"),
    )
  }
}
