//! C13 Composition laws: nesting, neutral elements and wrappers change nothing

use proptest::collection::vec;
use proptest::prelude::*;
use serde::{Deserialize, Serialize};

use crate::build::build;
use crate::gen::{normalize, tree, GenCfg};
use crate::observe::{attr_from_map, guard, line_only_full, opts, positions, AttrFull};
use crate::props::common::fresh_stream;
use crate::runner::*;
use crate::spec::{model_text, Repl, Spec};

pub struct C13;

#[derive(Clone, Debug, Serialize, Deserialize)]
pub struct Case {
  pub a: Spec,
  pub b: Spec,
  pub c: Spec,
  /// positions (selectors) of empty insertions for the "only empty replacements" law
  pub inserts: Vec<u16>,
}

fn cfg() -> GenCfg {
  GenCfg { depth: 2, ..GenCfg::positional() }
}

fn strategy() -> BoxedStrategy<Case> {
  let cfg = cfg();
  (tree(cfg), tree(cfg), tree(cfg), vec(any::<u16>(), 1..=3))
    .prop_map(move |(a, b, c, inserts)| {
      // establish the file-name precondition across the three trees
      match normalize(Spec::Concat { how: 0, children: vec![a, b, c] }, cfg) {
        Spec::Concat { mut children, .. } => {
          let c = children.pop().unwrap();
          let b = children.pop().unwrap();
          let a = children.pop().unwrap();
          Case { a, b, c, inserts }
        }
        _ => unreachable!(),
      }
    })
    .boxed()
}

/// triples whose SourceMapSource leaves carry maps longer than their text (`gen::overlong`)
fn strategy_overlong() -> BoxedStrategy<Case> {
  (strategy(), vec(any::<u16>(), 1..=6))
    .prop_map(|(mut case, sels)| {
      let mut next = 0;
      crate::gen::overlong(&mut case.a, &sels, &mut next);
      crate::gen::overlong(&mut case.b, &sels, &mut next);
      crate::gen::overlong(&mut case.c, &sels, &mut next);
      case
    })
    .boxed()
}

struct View {
  text: String,
  map_attr: [Vec<AttrFull>; 2],
  stream_attr: Vec<AttrFull>,
  stream_lines: std::collections::BTreeMap<u32, (String, Option<String>, u32)>,
  mappings: [Option<String>; 2],
}

fn view(s: &Spec) -> Result<View, String> {
  let text = model_text(s);
  // the text views: behaving "exactly like the wrapped source" starts with the text
  let views = guard(|| {
    let o = build(s);
    let mut w = vec![];
    let _ = o.to_writer(&mut w);
    (o.source().to_string(), o.rope().to_string(), o.buffer().to_vec(), o.size(), w)
  })
  .map_err(|p| format!("text views: {p}"))?;
  if views.0 != text || views.1 != text || views.2 != text.as_bytes() || views.3 != text.len() || views.4 != text.as_bytes() {
    return Err(format!(
      "text views disagree with the reference text {text:?}: source()={:?} rope()={:?} buffer()={:?} size()={} to_writer={:?}",
      views.0, views.1, String::from_utf8_lossy(&views.2), views.3, String::from_utf8_lossy(&views.4)
    ));
  }
  let mut map_attr: [Vec<AttrFull>; 2] = [vec![], vec![]];
  let mut mappings: [Option<String>; 2] = [None, None];
  for columns in [false, true] {
    let m = guard(|| build(s).map(&opts(columns, false))).map_err(|p| format!("map(columns={columns}): {p}"))?;
    map_attr[columns as usize] = attr_from_map(m.as_ref(), &text, columns)?;
    mappings[columns as usize] = m.map(|m| m.mappings().to_string());
  }
  let st = fresh_stream(s, true, false)?;
  let (stext, stream_attr) = st.attr();
  if stext != text {
    return Err(format!("stream reassembles to {stext:?}, reference text is {text:?}"));
  }
  let sl = fresh_stream(s, false, false)?;
  Ok(View { text, map_attr, stream_attr, stream_lines: sl.line_attr(), mappings })
}

/// `col_may_advance`: the right side may report a larger column on the same file/line
/// (law 6, read together with C06)
fn same(law: &str, l: &View, r: &View, col_may_advance: bool) -> Result<(), String> {
  if l.text != r.text {
    return Err(format!("{law}: texts differ: {:?} vs {:?}", l.text, r.text));
  }
  let (pos, _) = positions(&l.text);
  let eq = |x: &AttrFull, y: &AttrFull| -> bool {
    if !col_may_advance {
      return x == y;
    }
    match (x, y) {
      (None, None) => true,
      (Some(x), Some(y)) => x.0 == y.0 && x.1 == y.1 && x.2 == y.2 && x.4 == y.4 && y.3 >= x.3,
      _ => false,
    }
  };
  for i in 0..l.text.len() {
    if !eq(&l.map_attr[1][i], &r.map_attr[1][i]) {
      return Err(format!(
        "{law}: columns=true byte {i} ({}:{}) of {:?}: map() attributes {:?} vs {:?}; mappings {:?} vs {:?}",
        pos[i].0, pos[i].1, l.text, l.map_attr[1][i], r.map_attr[1][i], l.mappings[1], r.mappings[1]
      ));
    }
    if !eq(&l.stream_attr[i], &r.stream_attr[i]) {
      return Err(format!(
        "{law}: columns=true byte {i} ({}:{}) of {:?}: chunk stream attributes {:?} vs {:?}",
        pos[i].0, pos[i].1, l.text, l.stream_attr[i], r.stream_attr[i]
      ));
    }
    if line_only_full(&l.map_attr[0][i]) != line_only_full(&r.map_attr[0][i]) {
      return Err(format!(
        "{law}: columns=false output line {} of {:?}: map() attributes {:?} vs {:?}; mappings {:?} vs {:?}",
        pos[i].0, l.text, l.map_attr[0][i], r.map_attr[0][i], l.mappings[0], r.mappings[0]
      ));
    }
  }
  if l.stream_lines != r.stream_lines {
    return Err(format!("{law}: columns=false chunk streams attribute lines differently: {:?} vs {:?}", l.stream_lines, r.stream_lines));
  }
  Ok(())
}

/// map() for both column settings asked of ONE object, in the given order (each setting once, so no
/// cached answer is replayed): the per-byte attribution must be that of the fresh reference view
fn same_on_one_object(law: &str, reference: &View, s: &Spec, columns_first: bool) -> Result<(), String> {
  let obj = build(s);
  let (pos, _) = positions(&reference.text);
  for columns in [columns_first, !columns_first] {
    let m = guard(|| obj.map(&opts(columns, false))).map_err(|p| format!("{law}: map(columns={columns}) on a shared object: {p}"))?;
    let attr = attr_from_map(m.as_ref(), &reference.text, columns)?;
    for i in 0..reference.text.len() {
      let differs = if columns { attr[i] != reference.map_attr[1][i] } else { line_only_full(&attr[i]) != line_only_full(&reference.map_attr[0][i]) };
      if differs {
        return Err(format!(
          "{law}: one object asked map(columns={columns_first}) then map(columns={}): columns={columns} byte {i} ({}:{}) of {:?} is attributed {:?}, the reference {:?}; mappings {:?}",
          !columns_first, pos[i].0, pos[i].1, reference.text, attr[i], reference.map_attr[columns as usize][i], m.map(|m| m.mappings().to_string())
        ));
      }
    }
  }
  // the chunk stream asked twice with the same options (the second answer comes from the caches): the
  // text and the end are those of the reference whatever path produced the chunks
  let (_, end) = positions(&reference.text);
  for round in ["first", "second"] {
    let st = guard(|| crate::observe::stream(&*obj, &opts(true, false))).map_err(|p| format!("{law}: {round} stream on a shared object: {p}"))?;
    let t = st.text();
    if t != reference.text || st.info != end {
      return Err(format!(
        "{law}: {round} chunk stream (columns=true) of one object reassembles to {t:?} ending at {:?}; the reference text is {:?} ending at {:?}",
        st.info, reference.text, end
      ));
    }
  }
  Ok(())
}

/// one object streamed and mapped twice with the same options: text, end and "is there a map" only
fn same_on_one_object_text_only(law: &str, reference: &View, s: &Spec) -> Result<(), String> {
  let obj = build(s);
  let (_, end) = positions(&reference.text);
  for round in ["first", "second", "third"] {
    let st = guard(|| crate::observe::stream(&*obj, &opts(true, false))).map_err(|p| format!("{law}: {round} stream on one object: {p}"))?;
    let t = st.text();
    if t != reference.text || st.info != end {
      return Err(format!("{law}: {round} chunk stream (columns=true) of one object reassembles to {t:?} ending at {:?}; the reference text is {:?} ending at {:?}", st.info, reference.text, end));
    }
    let m = guard(|| obj.map(&opts(true, false))).map_err(|p| format!("{law}: {round} map() on one object: {p}"))?;
    let attr = attr_from_map(m.as_ref(), &reference.text, true)?;
    for i in 0..reference.text.len() {
      // file and line of every byte (the column may be refined by the cut, see C06)
      let (g, w) = (attr[i].as_ref().map(|a| (a.0.clone(), a.2)), reference.map_attr[1][i].as_ref().map(|a| (a.0.clone(), a.2)));
      if g != w {
        return Err(format!("{law}: {round} map() of one object attributes byte {i} of {:?} to {g:?}, the reference to {w:?}", reference.text));
      }
    }
  }
  Ok(())
}

fn cc(how: u8, children: Vec<Spec>) -> Spec {
  Spec::Concat { how, children }
}

/// bytes -> case (fuzz target `triple_c13`)
pub fn case_from_bytes(data: &[u8]) -> Case {
  let mut c = crate::from_bytes::Cur::new(data);
  let g = GenCfg { max_children: 3, ..cfg() };
  let n = 1 + c.below(3);
  let inserts = (0..n).map(|_| c.u16()).collect();
  let (a, b, cc3) = (crate::from_bytes::spec(&mut c, g.depth, g), crate::from_bytes::spec(&mut c, g.depth, g), crate::from_bytes::spec(&mut c, g.depth, g));
  match normalize(Spec::Concat { how: 0, children: vec![a, b, cc3] }, g) {
    Spec::Concat { mut children, .. } => {
      let c3 = children.pop().unwrap();
      let b = children.pop().unwrap();
      let a = children.pop().unwrap();
      Case { a, b, c: c3, inserts }
    }
    _ => unreachable!(),
  }
}

impl Prop for C13 {
  type Case = Case;
  const ID: &'static str = "C13";
  fn rule(&self) -> String {
    "triples (a, b, c) of ASCII trees of depth<=2 from gen::tree(positional) with the shared file-name precondition; \
     20 law instances per triple (regroupings: typed nested, boxed nested, add one by one, new; single child; \
     Raw('') / Original('') / empty ConcatSource as neutral elements at every position; CachedSource, Box, \
     ReplaceSource without and with only empty replacements), each side built fresh, compared on text and per-byte \
     attribution from map() and from the chunk stream (per line for columns=false); in addition every law side is built once \
     and asked map(columns=true) then map(columns=false) (or the reverse; both orders for the CachedSource laws) on that one object. Non-trivial: one of a, b ends \
     without a line break and the next tree starts with a mapped chunk; distinct by hash of the case JSON".into()
  }
  fn legs(&self, _tier: Tier) -> Vec<Leg<Case>> {
    vec![
      Leg { name: "triples", source: Cases::Generated(Box::new(strategy), 80_000, 1_200_000) },
      Leg { name: "triples whose SourceMapSource leaves carry maps longer than their text", source: Cases::Generated(Box::new(strategy_overlong), 20_000, 300_000) },
    ]
  }
  fn stages(&self, ctx: &Ctx) -> Vec<Stage> {
    if ctx.tier == Tier::Thorough {
      crate::fuzz::campaigns("C13", &["triple_c13"], ctx)
    } else {
      vec![]
    }
  }
  fn check(&self, case: &Case) -> CheckResult {
    let (a, b, c) = (case.a.clone(), case.b.clone(), case.c.clone());
    let flat = view(&cc(0, vec![a.clone(), b.clone(), c.clone()]))?;
    let laws: Vec<(&str, Spec)> = vec![
      ("add one by one == new([a,b,c])", cc(2, vec![a.clone(), b.clone(), c.clone()])),
      ("add(typed [a,b]) , c == flat", cc(1, vec![cc(1, vec![a.clone(), b.clone()]), c.clone()])),
      ("a, add(typed [b,c]) == flat", cc(1, vec![a.clone(), cc(0, vec![b.clone(), c.clone()])])),
      ("new([boxed [a,b], c]) == flat", cc(0, vec![cc(0, vec![a.clone(), b.clone()]), c.clone()])),
      ("new([a, boxed [b,c]]) == flat", cc(0, vec![a.clone(), cc(2, vec![b.clone(), c.clone()])])),
      ("new([boxed [a], boxed [b], boxed [c]]) == flat", cc(0, vec![cc(0, vec![a.clone()]), cc(1, vec![b.clone()]), cc(2, vec![c.clone()])])),
      ("new over typed [a,b] and typed [c] (flattened by new) == flat", cc(3, vec![cc(0, vec![a.clone(), b.clone()]), cc(2, vec![c.clone()])])),
      ("new over no items, then add(typed [a,b]), add(c) == flat", cc(4, vec![cc(0, vec![a.clone(), b.clone()]), c.clone()])),
      ("new over typed raw items, then add(typed [a,b,c]) == flat", cc(4, vec![Spec::Raw(String::new()), Spec::Raw(String::new()), cc(2, vec![a.clone(), b.clone(), c.clone()])])),
      ("boxed [boxed [a,b,c]] == flat", cc(0, vec![cc(0, vec![a.clone(), b.clone(), c.clone()])])),
      ("Raw('') between children == flat", cc(0, vec![Spec::Raw(String::new()), a.clone(), Spec::Raw(String::new()), b.clone(), c.clone(), Spec::RawStr(String::new())])),
      ("Original('') between children == flat", cc(0, vec![a.clone(), Spec::Orig { text: String::new(), name: "empty.js".into() }, b.clone(), Spec::Orig { text: String::new(), name: "empty.js".into() }, c.clone()])),
      ("empty ConcatSource between children == flat", cc(0, vec![cc(0, vec![]), a.clone(), cc(2, vec![]), b.clone(), c.clone(), cc(0, vec![])])),
      ("typed empty ConcatSource added == flat", cc(1, vec![a.clone(), cc(1, vec![]), b.clone(), c.clone()])),
      ("CachedSource around children == flat", cc(0, vec![Spec::Cached(Box::new(a.clone())), Spec::Boxed(Box::new(b.clone())), Spec::Cached(Box::new(Spec::Cached(Box::new(c.clone()))))])),
      ("CachedSource(flat) == flat", Spec::Cached(Box::new(cc(0, vec![a.clone(), b.clone(), c.clone()])))),
      ("ReplaceSource(flat, []) == flat", Spec::Replace { inner: Box::new(cc(0, vec![a.clone(), b.clone(), c.clone()])), repls: vec![] }),
      ("ReplaceSource(children, []) == flat", cc(0, vec![Spec::Replace { inner: Box::new(a.clone()), repls: vec![] }, b.clone(), Spec::Replace { inner: Box::new(c.clone()), repls: vec![] }])),
    ];
    for (k, (law, s)) in laws.iter().enumerate() {
      same(law, &flat, &view(s)?, false)?;
      if law.contains("Cached") {
        same_on_one_object(law, &flat, s, true)?;
        same_on_one_object(law, &flat, s, false)?;
      } else {
        same_on_one_object(law, &flat, s, k % 2 == 0)?;
      }
    }
    // wrappers of a single tree
    let va = view(&a)?;
    same("new([a]) == a", &va, &view(&cc(0, vec![a.clone()]))?, false)?;
    same("Cached(a) == a", &va, &view(&Spec::Cached(Box::new(a.clone())))?, false)?;
    same_on_one_object("Cached(a) == a", &va, &Spec::Cached(Box::new(a.clone())), true)?;
    same_on_one_object("Cached(a) == a", &va, &Spec::Cached(Box::new(a.clone())), false)?;
    // a cached child below a ReplaceSource / a CachedSource parent
    let wrapped = Spec::Replace { inner: Box::new(cc(0, vec![Spec::Raw(String::new()), Spec::Cached(Box::new(a.clone()))])), repls: vec![] };
    same_on_one_object("ReplaceSource([Raw(''), Cached(a)], []) == a", &va, &wrapped, true)?;
    same_on_one_object("Cached(Cached(a)) == a", &va, &Spec::Cached(Box::new(Spec::Cached(Box::new(a.clone())))), true)?;
    if !a.has_sms() {
      // (with a map-driven leaf beneath, a warm CachedSource under a cutting ReplaceSource may refine
      // columns differently: C13 compares such a tree only cold; everything else about it is C10's)
      let ins = Spec::Replace {
        inner: Box::new(Spec::Cached(Box::new(a.clone()))),
        repls: vec![Repl { start: 0, end: 0, content: String::new(), name: None, enforce: 1 }],
      };
      same_on_one_object_text_only("ReplaceSource(Cached(a), one empty insertion) == a", &va, &ins)?;
    }
    same("boxed(a) == a", &va, &view(&Spec::Boxed(Box::new(a.clone())))?, false)?;
    // only empty replacements: everything equal, the column may be refined (see C06)
    let t = model_text(&a);
    let repls: Vec<Repl> = case
      .inserts
      .iter()
      .enumerate()
      .map(|(k, s)| {
        let p = crate::gen::idx(*s, t.len() + 3) as u32;
        Repl { start: p, end: p, content: String::new(), name: if k % 2 == 0 { None } else { Some("n1".into()) }, enforce: (k % 3) as u8 }
      })
      .collect();
    same(
      "ReplaceSource(a, only empty insertions) == a (column may be refined)",
      &va,
      &view(&Spec::Replace { inner: Box::new(a.clone()), repls })?,
      true,
    )?;
    // non-trivial rule
    let starts_mapped = |s: &Spec| -> bool { fresh_stream(s, true, false).map(|st| st.chunks.first().is_some_and(|c| c.orig.is_some())).unwrap_or(false) };
    let open_end = |s: &Spec| -> bool {
      let t = model_text(s);
      !t.is_empty() && !t.ends_with('\n')
    };
    let nt = (open_end(&a) && starts_mapped(&b)) || (open_end(&b) && starts_mapped(&c));
    Ok(
      CaseInfo::nt(nt)
        .class(model_text(&a).is_empty() || model_text(&b).is_empty() || model_text(&c).is_empty(), "a child with empty text")
        .class(a.has_sms() || b.has_sms() || c.has_sms(), "has SourceMapSource")
        .class(a.has_replace() || b.has_replace() || c.has_replace(), "has ReplaceSource"),
    )
  }
}
