//! C14 Equality, hashing and cloning are coherent and history-independent

use proptest::collection::vec;
use proptest::prelude::*;
use rspack_sources::{BoxSource, Source, SourceMap};
use serde::{Deserialize, Serialize};

use crate::build::build;
use crate::edit::{all_edits, pick_edit};
use crate::gen::{tree, GenCfg};
use crate::observe::{guard, opts, stream};
use crate::props::c05::hash_of;
use crate::runner::*;
use crate::spec::Spec;

pub struct C14;

pub const OBS: &[&str] = &["source", "buffer", "size", "rope", "map(true)", "map(false)", "stream(true)", "stream(false)", "hash", "clone", "eq-self", "Debug"];

/// how the second operand of a `SharedMap` pair differs: a setter called on a *clone* of the
/// first operand's SourceMap (so both maps share their reference-counted payload)
pub const SETTERS: &[&str] = &["none", "file", "sourceRoot", "debugId", "sources", "sourcesContent", "names"];

#[derive(Clone, Debug, Serialize, Deserialize)]
pub struct Case {
  /// Some((setter index, wrapper 0..4)): x must be a SourceMapSource leaf; y is built from a clone of
  /// x's SourceMap object with one setter applied, both wrapped the same way
  #[serde(default)]
  pub shared_map: Option<(u8, u8)>,
  pub x: Spec,
  /// selector of the edit that turns x into y (None: y is built from the same Spec)
  pub edit: Option<u16>,
  /// observer history applied to x only
  pub hx: Vec<u8>,
  /// observer history applied to y only
  pub hy: Vec<u8>,
  /// Some(k): x is built through `build_observed`: observer k (source, size, hash, map(true), map(false),
  /// buffer) is called on every ReplaceSource / ConcatSource under construction after each of its
  /// mutating calls; y and the fresh twin are built without
  #[serde(default)]
  pub observed_build: Option<u8>,
}

fn observe_during_build(s: &dyn Source, k: u8) {
  match k % 6 {
    0 => {
      let _ = s.source();
    }
    1 => {
      let _ = s.size();
    }
    2 => {
      let mut st = std::collections::hash_map::DefaultHasher::new();
      s.update_hash(&mut st);
    }
    3 => {
      let _ = s.map(&opts(true, false));
    }
    4 => {
      let _ = s.map(&opts(false, false));
    }
    _ => {
      let _ = s.buffer();
    }
  }
}

fn cfg() -> GenCfg {
  // ASCII: observers include map()/stream, keep clear of the non-ASCII column finding W2
  // no CachedSource beneath a ReplaceSource: replay coarsens chunks and a ReplaceSource above
  // cuts by chunk, so column-level answers of such a tree legitimately differ between a cold and
  // a warm call (DESIGN.md 1.5 rule 1); everything else about it is covered by C05/C07/C10
  GenCfg { cached_under_replace: false, ..GenCfg::positional() }
}

fn strategy() -> BoxedStrategy<Case> {
  (
    tree(cfg()),
    prop_oneof![1 => Just(None), 2 => any::<u16>().prop_map(Some)],
    vec(0u8..OBS.len() as u8, 0..=5),
    prop_oneof![2 => Just(vec![]), 1 => vec(0u8..OBS.len() as u8, 0..=4)],
    prop_oneof![3 => Just(None), 1 => (0u8..6u8).prop_map(Some)],
    // binary leaves not beneath a ReplaceSource hold invalid UTF-8 now and then (source() and buffer() then
    // differ in length); everything else stays ASCII
    vec(any::<u16>(), 0..=4),
    // one tree in 16 is doubled: an add-typed ConcatSource holding the tree twice (built as c.add(c.clone()) on the x side)
    0u8..16u8,
  )
    .prop_map(|(x, edit, hx, hy, observed_build, bin, double)| {
      let x = crate::props::common::with_binary(x, &bin);
      let (x, observed_build) = if double == 0 { (Spec::Concat { how: 1, children: vec![x.clone(), x] }, None) } else { (x, observed_build) };
      Case { shared_map: None, x, edit, hx, hy, observed_build }
    })
    .boxed()
}

fn shared_map_strategy() -> BoxedStrategy<Case> {
  let cfg = cfg();
  (crate::gen::text(true, 8), crate::gen::abs_map(cfg), 0u8..SETTERS.len() as u8, 0u8..4u8, vec(0u8..OBS.len() as u8, 0..=3))
    .prop_map(move |(text, am, setter, wrap, hx)| {
      let map = crate::gen::concretize_map(&text, &am, true);
      Case { shared_map: Some((setter, wrap)), x: Spec::Sms { text, name: "g.js".into(), map, full: None }, edit: None, hx, hy: vec![], observed_build: None }
    })
    .boxed()
}

/// the pair of a `SharedMap` case: y's SourceMap is a clone of x's with one setter applied
fn shared_pair(case: &Case, setter: u8, wrap: u8) -> Option<(BoxSource, BoxSource, bool)> {
  shared_pair_of(&case.x, setter, wrap)
}

pub fn shared_pair_of(x: &Spec, setter: u8, wrap: u8) -> Option<(BoxSource, BoxSource, bool)> {
  use rspack_sources::{CachedSource, ConcatSource, RawSource, ReplaceSource, SourceExt, SourceMapSource, WithoutOriginalOptions};
  let Spec::Sms { text, name, map, .. } = x else { return None };
  let m1 = crate::build::source_map(map);
  let mut m2 = m1.clone();
  let changed = match SETTERS[setter as usize] {
    "none" => false,
    "file" => {
      m2.set_file(Some("other.js"));
      true
    }
    "sourceRoot" => {
      m2.set_source_root(Some("elsewhere"));
      true
    }
    "debugId" => {
      m2.set_debug_id(Some("ffff-0000"));
      true
    }
    "sources" => {
      let mut v = m1.sources().to_vec();
      v.push("added.js".into());
      m2.set_sources(v);
      true
    }
    "sourcesContent" => {
      let mut v = m1.sources_content().to_vec();
      v.push("added".into());
      m2.set_sources_content(v);
      true
    }
    _ => {
      let mut v = m1.names().to_vec();
      v.push("added".into());
      m2.set_names(v);
      true
    }
  };
  let mk = |m: rspack_sources::SourceMap| -> BoxSource {
    let s = SourceMapSource::new(WithoutOriginalOptions { value: text.clone(), name: name.clone(), source_map: m });
    match wrap {
      0 => s.boxed(),
      1 => CachedSource::new(s).boxed(),
      2 => ConcatSource::new([s.boxed(), RawSource::from("x").boxed()]).boxed(),
      _ => {
        let mut r = ReplaceSource::new(s);
        r.insert(0, "/**/", None);
        r.boxed()
      }
    }
  };
  Some((mk(m1), mk(m2), changed))
}

/// everything observable about a source, as comparable data.
/// `exact` = false (trees containing a CachedSource): maps and chunk streams are
/// compared by the attribution they give to every byte instead of verbatim,
/// because a cache filled by streaming legitimately stores a re-encoded map and
/// replays coarser chunks than one filled by map() (C10's notion of "same answer").
#[derive(PartialEq, Debug, Clone)]
pub struct Observed {
  pub source: String,
  pub buffer: Vec<u8>,
  pub size: usize,
  pub rope: String,
  pub maps: Option<[Option<SourceMap>; 2]>,
  pub streams: Option<[(Vec<crate::observe::Chunk>, Vec<(u32, String, Option<String>)>, Vec<(u32, String)>); 2]>,
  pub infos: [(u32, u32); 2],
  pub map_attr: [Vec<crate::observe::AttrFull>; 2],
  pub stream_attr: Vec<crate::observe::AttrFull>,
  pub stream_lines: std::collections::BTreeMap<u32, (String, Option<String>, u32)>,
}

thread_local! {
  /// set by the check for trees with a CachedSource over text that is not ASCII (lossy-decoded binary
  /// leaves): a warm CachedSource mixes char and byte columns there (known finding W2), so positions and
  /// attribution are not compared for such a tree - the text views, sizes, equality and hashes are
  static TEXT_ONLY: std::cell::Cell<bool> = const { std::cell::Cell::new(false) };
}

pub fn observe_all(s: &dyn Source, exact: bool) -> Observed {
  let mut o = observe_all_inner(s, exact);
  if TEXT_ONLY.with(|t| t.get()) {
    o.maps = None;
    o.streams = None;
    o.infos = [(0, 0), (0, 0)];
    o.map_attr = [vec![], vec![]];
    o.stream_attr = vec![];
    o.stream_lines = Default::default();
  }
  o
}

fn observe_all_inner(s: &dyn Source, exact: bool) -> Observed {
  let source = s.source().to_string();
  let m = [s.map(&opts(false, false)), s.map(&opts(true, false))];
  let map_attr = [
    crate::observe::attr_from_map(m[0].as_ref(), &source, false).unwrap_or_default(),
    crate::observe::attr_from_map(m[1].as_ref(), &source, true).unwrap_or_default(),
  ];
  let sf = stream(s, &opts(false, false));
  let stt = stream(s, &opts(true, false));
  Observed {
    buffer: s.buffer().to_vec(),
    size: s.size(),
    rope: s.rope().to_string(),
    infos: [sf.info, stt.info],
    map_attr,
    stream_attr: stt.attr().1,
    stream_lines: sf.line_attr(),
    maps: exact.then_some(m),
    streams: exact.then(|| [(sf.chunks.clone(), sf.sources.clone(), sf.names.clone()), (stt.chunks.clone(), stt.sources.clone(), stt.names.clone())]),
    source,
  }
}

fn apply(s: &BoxSource, k: u8) {
  match OBS[k as usize] {
    "source" => {
      let _ = s.source();
    }
    "buffer" => {
      let _ = s.buffer();
    }
    "size" => {
      let _ = s.size();
    }
    "rope" => {
      let _ = s.rope().to_string();
    }
    "map(true)" => {
      let _ = s.map(&opts(true, false));
    }
    "map(false)" => {
      let _ = s.map(&opts(false, false));
    }
    "stream(true)" => {
      let _ = stream(&**s, &opts(true, false));
    }
    "stream(false)" => {
      let _ = stream(&**s, &opts(false, false));
    }
    "hash" => {
      let _ = hash_of(&**s);
    }
    "clone" => {
      let c = s.clone();
      let _ = c.source();
    }
    "eq-self" => {
      let _ = **s == **s;
    }
    "Debug" => {
      let _ = format!("{s:?}");
    }
    _ => unreachable!(),
  }
}

/// bytes -> case (fuzz target `pair_c14`)
pub fn case_from_bytes(data: &[u8]) -> Case {
  let mut c = crate::from_bytes::Cur::new(data);
  let edit = if c.u8() % 3 == 0 { None } else { Some(c.u16()) };
  let nx = c.below(6);
  let hx = (0..nx).map(|_| c.u8() % OBS.len() as u8).collect();
  let ny = if c.u8() % 3 == 0 { c.below(5) } else { 0 };
  let hy = (0..ny).map(|_| c.u8() % OBS.len() as u8).collect();
  let observed_build = if c.u8() % 4 == 0 { Some(c.u8() % 6) } else { None };
  let g = cfg();
  let x = crate::gen::normalize(crate::from_bytes::spec(&mut c, g.depth, g), g);
  Case { shared_map: None, x, edit, hx, hy, observed_build }
}

impl Prop for C14 {
  type Case = Case;
  const ID: &'static str = "C14";
  fn rule(&self) -> String {
    "pairs (x, y) of ASCII trees (all source types incl. binary leaves): y is built from the same Spec, or from x with \
     one edit (a leaf, file name, replacement field, child, map field, option or type tag; edit::all_edits) at any depth; \
     an observer history (<=5 of source/buffer/size/rope/map/stream/hash/clone/eq/Debug) is applied to x only and \
     another to y only between comparisons; in a quarter of the cases x is built with an observer called on every ReplaceSource / ConcatSource \
     under construction after each of its mutating calls. Checks: same Spec => equal, equal hash, equal observations; x == y => equal \
     hash and observations; eq symmetric; clone equal and observationally identical; eq and hash unchanged by histories; \
     observers repeatable. Non-trivial: a non-empty history on exactly one operand; distinct by hash of the case JSON".into()
  }
  fn legs(&self, _tier: Tier) -> Vec<Leg<Case>> {
    vec![
      Leg { name: "pairs", source: Cases::Generated(Box::new(strategy), 300_000, 4_000_000) },
      Leg {
        name: "SourceMapSource pairs whose maps share their payload (clone + setter)",
        source: Cases::Generated(Box::new(shared_map_strategy), 30_000, 400_000),
      },
    ]
  }
  fn stages(&self, ctx: &Ctx) -> Vec<Stage> {
    if ctx.tier == Tier::Thorough {
      crate::fuzz::campaigns("C14", &["pair_c14"], ctx)
    } else {
      vec![]
    }
  }
  fn check(&self, case: &Case) -> CheckResult {
    let r = guard(|| -> Result<CaseInfo, String> {
      let xs = &case.x;
      let (ys, kind): (Spec, &'static str) = match case.edit {
        None => (xs.clone(), "same Spec"),
        Some(sel) => {
          match pick_edit(all_edits(xs, true), sel) {
            None => (xs.clone(), "same Spec"),
            Some(ed) => (ed.result, ed.kind),
          }
        }
      };
      TEXT_ONLY.with(|t| t.set(xs.has_cached() && !(crate::spec::model_text(xs).is_ascii() && crate::spec::model_text(&ys).is_ascii())));
      let mut same_spec = ys == *xs;
      let mut exact = !xs.has_cached() && !ys.has_cached();
      let (x, y) = match case.shared_map {
        Some((setter, wrap)) => {
          let (x, y, changed) = shared_pair(case, setter, wrap).ok_or("harness: shared_map case needs an Sms leaf")?;
          same_spec = !changed;
          exact = wrap != 1;
          (x, y)
        }
        None => match case.observed_build {
          Some(k) => (crate::build::build_observed(xs, &mut |s| observe_during_build(s, k)), build(&ys)),
          // a tree that holds a typed ConcatSource twice: x shares the reference-counted children between the two
          // positions (clone handed to the flattening `add`), y is built from separately allocated ones
          None if crate::build::has_shareable_twins(xs) => (crate::build::build_shared(xs), build(&ys)),
          None => (build(xs), build(&ys)),
        },
      };
      // sources of different types at one address (also behind Box / dyn): a user-defined source that holds a library source
      // inline, compared with that field; two data-less user-defined sources in boxes.  a == b must imply equal hashes
      // and equal observers here as everywhere.
      {
        let (text, name) = match xs.find_orig() {
          Some((t, n)) => (t, n),
          None => ("a;\nb".to_string(), "u.js".to_string()),
        };
        let w = crate::custom::Inline(rspack_sources::OriginalSource::new(text, name));
        let (a, b): (&dyn Source, &dyn Source) = (&w, &w.0);
        for (l, r) in [(a, b), (b, a)] {
          if l == r && (hash_of(l) != hash_of(r) || l.map(&opts(true, false)).is_some() != r.map(&opts(true, false)).is_some()) {
            return Err("a user-defined source holding an OriginalSource inline and that OriginalSource (same address, different types) compare equal, yet their hashes or map() differ".into());
          }
        }
        let (n, sc): (Box<dyn Source>, Box<dyn Source>) = (Box::new(crate::custom::Newline), Box::new(crate::custom::Semicolon));
        if (*n == *sc || *sc == *n) && n.source() != sc.source() {
          return Err("two boxed data-less user-defined sources of different types compare equal although source() differs".into());
        }
      }
      // before any other observer: the cheap scalar answers of a cold object (they must not change later)
      let (size_cold_x, size_cold_y) = (x.size(), y.size());
      // before any observer
      let eq0 = *x == *y;
      if eq0 != (*y == *x) {
        return Err(format!("equality is not symmetric ({kind})"));
      }
      let (hx0, hy0) = (hash_of(&*x), hash_of(&*y));
      if same_spec && !eq0 {
        return Err("two sources built from the same constructor calls compare unequal".into());
      }
      if eq0 && hx0 != hy0 {
        return Err(format!("x == y but the hashes differ ({kind})"));
      }
      // histories on one operand at a time
      for k in &case.hx {
        apply(&x, *k);
      }
      if (*x == *y) != eq0 || (*y == *x) != eq0 {
        return Err(format!("x == y was {eq0} and changed after observers {:?} were called on x ({kind})", case.hx.iter().map(|k| OBS[*k as usize]).collect::<Vec<_>>()));
      }
      if hash_of(&*x) != hx0 {
        return Err(format!("hash(x) changed after observers {:?}", case.hx.iter().map(|k| OBS[*k as usize]).collect::<Vec<_>>()));
      }
      for k in &case.hy {
        apply(&y, *k);
      }
      if (*x == *y) != eq0 {
        return Err(format!("x == y was {eq0} and changed after observers were called on y ({kind})"));
      }
      if hash_of(&*y) != hy0 {
        return Err("hash(y) changed after observers".to_string());
      }
      // observations
      let ox = observe_all(&*x, exact);
      if ox.size != size_cold_x || x.size() != size_cold_x {
        return Err(format!("size() answered {size_cold_x} on the cold object and {} / {} after other observers were called", ox.size, x.size()));
      }
      if y.size() != size_cold_y {
        return Err(format!("size() of y answered {size_cold_y} on the cold object and {} later", y.size()));
      }
      let ox2 = observe_all(&*x, exact);
      if ox != ox2 {
        return Err("an observer returned a different answer when repeated on an unchanged value".into());
      }
      if eq0 {
        let oy = observe_all(&*y, exact);
        if ox != oy {
          return Err(format!("x == y ({kind}) but an observer answers differently: {:?} vs {:?}", ox.source, oy.source));
        }
      }
      if case.shared_map.is_some() {
        return Ok(
          CaseInfo::nt(!case.hx.is_empty())
            .class(true, "maps sharing their payload")
            .class(eq0, "shared-payload pair compares equal")
            .class(!eq0, "shared-payload pair compares unequal"),
        );
      }
      // a fresh, never observed build still equals the observed one
      let fresh = build(xs);
      if fresh.size() != size_cold_x || fresh.buffer().len() != size_cold_x {
        return Err(format!("a freshly built twin answers size() = {} / buffer().len() = {}, x answered {size_cold_x} when cold", fresh.size(), fresh.buffer().len()));
      }
      if *x != *fresh || hash_of(&*fresh) != hx0 {
        return Err("an observed source is no longer equal to / hashes differently from a freshly built one".into());
      }
      if observe_all(&*fresh, exact) != ox {
        return Err("an observed source answers differently from a freshly built one".into());
      }
      // the same value spelled through other public constructors (a raw leaf's text then lives elsewhere: a
      // `&'static str` at an arbitrary address, a heap copy): equal, same hash under any hasher, same answers
      {
        let shift = 1 + (case.hx.len() % 2) as u8;
        let re = crate::build::with_respell(shift, || build(xs));
        if *x != *re || *re != *fresh {
          return Err("a source whose raw leaves were built through another constructor spelling (same content) compares unequal".into());
        }
        if hash_of(&*re) != hx0 || crate::props::common::hash_split(&*re) != crate::props::common::hash_split(&*fresh) {
          return Err("a source whose raw leaves were built through another constructor spelling (same content, text at another address) hashes differently".into());
        }
        if observe_all(&*re, exact) != ox {
          return Err("a source whose raw leaves were built through another constructor spelling answers an observer differently".into());
        }
      }
      // the same constructor calls made on another, freshly started thread (where a value was built is not part of the
      // value): equal in both directions, same hash, same answers
      if (size_cold_x + case.hx.len()) % 4 == 0 {
        let spec = xs.clone();
        let there = std::thread::spawn(move || build(&spec)).join().map_err(|_| "building on another thread panicked".to_string())?;
        if *there != *fresh || *fresh != *there || *x != *there {
          return Err("a source built by the same constructor calls on another thread compares unequal".into());
        }
        if hash_of(&*there) != hx0 {
          return Err("a source built by the same constructor calls on another thread hashes differently".into());
        }
        if observe_all(&*there, exact) != ox {
          return Err("a source built by the same constructor calls on another thread answers an observer differently".into());
        }
      }
      // clone
      let cl = x.clone();
      if *cl != *x || hash_of(&*cl) != hx0 {
        return Err("a clone is not equal to / hashes differently from its original".into());
      }
      if observe_all(&*cl, exact) != ox {
        return Err("a clone answers an observer differently from its original".into());
      }
      // a typed ReplaceSource and its clone lead separate lives: one more replacement on the clone leaves the
      // original as it was (equal to a fresh build, same observations), and the two are no longer equal
      if let Spec::Replace { inner, repls } = xs {
        let mut orig = rspack_sources::ReplaceSource::new(build(inner));
        for r in repls {
          crate::build::apply_repl(&mut orig, r);
        }
        let before = observe_all(&orig, exact);
        let h_before = hash_of(&orig);
        let mut cl = orig.clone();
        cl.insert(0, "<clone-only>", None);
        let _ = cl.source();
        let _ = hash_of(&cl);
        let after = observe_all(&orig, exact);
        if after != before || hash_of(&orig) != h_before {
          return Err("a ReplaceSource answers differently after its clone received another replacement and was observed".into());
        }
        if orig == cl {
          return Err("a ReplaceSource compares equal to its clone although the clone received another replacement".into());
        }
        if cl.source() == orig.source() || hash_of(&cl) == h_before {
          return Err("the clone with one more (non-empty) insertion at 0 renders / hashes like its original".into());
        }
        let mut twin = orig.clone();
        let _ = twin.source();
        twin.insert(0, "<clone-only>", None);
        if twin != cl || twin.source() != cl.source() || hash_of(&twin) != hash_of(&cl) {
          return Err("two clones that received the same further replacement (one observed before, one not) differ".into());
        }
      }
      // deep clone through dyn_clone of the inner value
      let deep: Box<dyn Source> = dyn_clone_box(&*x);
      if *deep != *x || hash_of(&*deep) != hx0 || observe_all(&*deep, exact) != ox {
        return Err("a deep clone (Clone of the concrete type) differs from its original".into());
      }
      Ok(
        CaseInfo::nt(case.hx.is_empty() != case.hy.is_empty())
          .class(same_spec, "pair built from the same Spec")
          .class(case.shared_map.is_none() && case.observed_build.is_none() && crate::build::has_shareable_twins(xs), "x holds the same reference-counted children at two positions, y separately allocated ones")
          .class(case.observed_build.is_some() && xs.any(&|s| matches!(s, Spec::Replace { repls, .. } if repls.len() >= 2)), "x observed while under construction (>=2 replacements)")
          .class(!same_spec && eq0, "different construction, compares equal")
          .class(!same_spec && !eq0, "one edit apart, compares unequal")
          .class(kind.starts_with("type tag"), "type tag edit")
          .class(xs.has_cached(), "has CachedSource")
          .class(xs.any(&|s| matches!(s, Spec::RawBuf(_) | Spec::RawBytes(_))), "has a lazily decoded buffer leaf"),
      )
    });
    match r {
      Err(p) => Err(p),
      Ok(x) => x,
    }
  }
}

/// `Clone` of the concrete type behind a `dyn Source` (the crate makes
/// `dyn Source: DynClone`, which is how `Box<dyn Source>` gets its `Clone`)
pub fn dyn_clone_box(s: &(dyn Source + 'static)) -> Box<dyn Source> {
  dyn_clone::clone_box(s)
}
