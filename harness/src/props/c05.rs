//! C05 ReplaceSource text equals the reference replacement model

use std::hash::Hasher;

use proptest::collection::vec;
use proptest::prelude::*;
use rspack_sources::{BoxSource, ReplaceSource, Source, SourceExt};
use serde::{Deserialize, Serialize};

use crate::build::{apply_repl, build};
use crate::gen::{abs_repl, concretize_repls, tree, AbsRepl, GenCfg};
use crate::observe::{guard, opts, stream};
use crate::runner::*;
use crate::spec::{model_text, splice_text, Repl, Spec};

pub struct C05;

#[derive(Clone, Debug, Serialize, Deserialize)]
pub enum Op {
  /// a mutating call (replace / insert / *_with_enforce, chosen by `build::apply_repl`)
  Mut(Repl),
  /// an observer call
  Obs(u8),
  /// clone the current object; the clone stays alive next to it and becomes the current object
  Fork,
  /// make another live object (index modulo their number) the current one
  Switch(u8),
  /// `n` mutating calls written compactly: call k is an insertion at the start (k even) or at the end of the
  /// inner text (k odd) - or beyond it when `seed` is odd - with content "<k mod 10>" and enforce (k + seed) mod 3
  Bulk(u32, u16),
}

fn expand(ops: &[Op], text_len: usize) -> Vec<Op> {
  let mut out = vec![];
  for op in ops {
    match op {
      Op::Bulk(n, seed) => {
        for k in 0..*n {
          let p = if k % 2 == 0 { 0 } else { text_len as u32 + if seed % 2 == 1 { 2 } else { 0 } };
          out.push(Op::Mut(Repl { start: p, end: p, content: format!("{}", k % 10), name: None, enforce: ((k + *seed as u32) % 3) as u8 }));
        }
      }
      o => out.push(o.clone()),
    }
  }
  out
}

#[derive(Clone, Debug, Serialize, Deserialize)]
pub struct Case {
  pub inner: Spec,
  pub ops: Vec<Op>,
}

pub const OBSERVERS: &[&str] = &[
  "source", "rope", "buffer", "size", "to_writer", "map(true)", "map(false)", "stream(true)",
  "stream(false)", "hash", "clone->source", "eq-with-twin", "Debug",
];

pub fn hash_of(s: &dyn Source) -> u64 {
  let mut st = std::collections::hash_map::DefaultHasher::new();
  s.update_hash(&mut st);
  st.finish()
}

fn inner_cfg() -> GenCfg {
  GenCfg {
    ascii: false,
    sms: false,
    sms_inner: false,
    wild: false,
    cached: false,
    cached_under_replace: false,
    invalid_utf8: true,
    replace: false,
    huge_positions: true,
    depth: 1,
    max_children: 3,
    max_tokens: 8,
  }
}

#[derive(Clone, Debug)]
enum AbsOp {
  Mut(AbsRepl),
  Obs(u8),
  Fork,
  Switch(u8),
}

fn strategy() -> BoxedStrategy<Case> {
  strategy_with(5, 0, 12, 2)
}

/// long histories over very few cut points: more than 20 replacements with
/// colliding keys (std's unstable sort is an insertion sort, hence stable, up to 20 elements)
fn strategy_long() -> BoxedStrategy<Case> {
  strategy_with(2, 22, 48, 1)
}

/// very long histories: well over a hundred replacements on few cut points, observers in between
fn strategy_very_long() -> BoxedStrategy<Case> {
  strategy_with(3, 190, 280, 1)
}

/// replacements recorded in ascending (start, end) order - what a tool walking the text from left to right
/// produces - 66-140 of them over few cut points, with every enforce value; a few observers at the end
fn strategy_monotone() -> BoxedStrategy<Case> {
  let cfg = inner_cfg();
  (tree(cfg), vec(any::<u16>(), 1..=4), vec(abs_repl(cfg), 66..=140), vec(0u8..OBSERVERS.len() as u8, 1..=3))
    .prop_map(move |(inner, pool, abs, obs)| {
      let t = model_text(&inner);
      let mut repls: Vec<Repl> = abs.iter().map(|a| concretize_repls(&t, &pool, std::slice::from_ref(a), false).pop().unwrap()).collect();
      // stable: ties keep their generated order (enforce values in any order)
      repls.sort_by_key(|r| (r.start, r.end));
      let mut ops: Vec<Op> = repls.into_iter().map(Op::Mut).collect();
      ops.extend(obs.into_iter().map(Op::Obs));
      Case { inner, ops }
    })
    .boxed()
}

/// more than 65 536 recorded replacements (counters and indices of 16 bits are too small), then a few more
/// ordinary ones and observers
fn strategy_bulk() -> BoxedStrategy<Case> {
  let cfg = inner_cfg();
  (tree(cfg), 65_530u32..66_200, any::<u16>(), vec(any::<u16>(), 1..=3), vec(abs_repl(cfg), 0..=4), vec(0u8..OBSERVERS.len() as u8, 1..=2))
    .prop_map(move |(inner, n, seed, pool, abs, obs)| {
      let t = model_text(&inner);
      let mut ops = vec![Op::Bulk(n, seed)];
      ops.extend(abs.iter().map(|a| Op::Mut(concretize_repls(&t, &pool, std::slice::from_ref(a), false).pop().unwrap())));
      ops.extend(obs.into_iter().map(Op::Obs));
      Case { inner, ops }
    })
    .boxed()
}

fn strategy_with(pool_max: usize, ops_min: usize, ops_max: usize, obs_weight: u32) -> BoxedStrategy<Case> {
  let cfg = inner_cfg();
  (
    tree(cfg),
    vec(any::<u16>(), 1..=pool_max),
    vec(
      prop_oneof![
        6 => abs_repl(cfg).prop_map(AbsOp::Mut),
        2 * obs_weight => (0u8..OBSERVERS.len() as u8).prop_map(AbsOp::Obs),
        1 => Just(AbsOp::Fork),
        1 => (0u8..4u8).prop_map(AbsOp::Switch),
      ],
      ops_min..=ops_max,
    ),
  )
    .prop_map(move |(inner, pool, aops)| {
      let t = model_text(&inner);
      let ops = aops
        .into_iter()
        .map(|o| match o {
          AbsOp::Mut(a) => Op::Mut(concretize_repls(&t, &pool, &[a], true).pop().unwrap()),
          AbsOp::Obs(k) => Op::Obs(k),
          AbsOp::Fork => Op::Fork,
          AbsOp::Switch(k) => Op::Switch(k),
        })
        .collect();
      Case { inner, ops }
    })
    .boxed()
}

fn observe(
  obj: &ReplaceSource<BoxSource>,
  kind: u8,
  want: &str,
  case: &Case,
  so_far: &[Repl],
) -> Result<(), String> {
  let name = OBSERVERS[kind as usize];
  let bad = |got: String| Err(format!("after {} mutating call(s), {name} gives {got:?}, the model gives {want:?}", so_far.len()));
  match name {
    "source" => {
      let g = obj.source().to_string();
      if g != want {
        return bad(g);
      }
    }
    "rope" => {
      let g = obj.rope().to_string();
      if g != want {
        return bad(g);
      }
    }
    "buffer" => {
      let g = obj.buffer().to_vec();
      if g != want.as_bytes() {
        return bad(String::from_utf8_lossy(&g).to_string());
      }
    }
    "size" => {
      let g = obj.size();
      if g != want.len() {
        return bad(format!("size {g}"));
      }
    }
    "to_writer" => {
      let mut v = vec![];
      obj.to_writer(&mut v).map_err(|e| format!("to_writer into a Vec failed: {e}"))?;
      if v != want.as_bytes() {
        return bad(String::from_utf8_lossy(&v).to_string());
      }
    }
    "map(true)" | "map(false)" => {
      let _ = obj.map(&opts(name == "map(true)", false));
    }
    "stream(true)" | "stream(false)" => {
      let st = stream(obj, &opts(name == "stream(true)", false));
      let g = st.text();
      if g != want {
        return bad(g);
      }
    }
    "hash" => {
      let _ = hash_of(obj);
    }
    "clone->source" => {
      let g = obj.clone().source().to_string();
      if g != want {
        return bad(g);
      }
    }
    "eq-with-twin" => {
      // a twin that received the same mutating calls and was never observed
      let mut twin = ReplaceSource::new(build(&case.inner));
      for r in so_far {
        apply_repl(&mut twin, r);
      }
      if *obj != twin {
        return Err(format!("after {} mutating call(s) the observed object is != an unobserved twin", so_far.len()));
      }
    }
    "Debug" => {
      let _ = format!("{obj:?}");
    }
    _ => unreachable!(),
  }
  Ok(())
}

/// bytes -> case (fuzz target `hist_c05`)
pub fn case_from_bytes(data: &[u8]) -> Case {
  use crate::gen::AbsRepl;
  let mut c = crate::from_bytes::Cur::new(data);
  let cfg = inner_cfg();
  let inner = crate::gen::normalize(crate::from_bytes::spec(&mut c, cfg.depth, cfg), cfg);
  let t = model_text(&inner);
  let np = 1 + c.below(5);
  let pool: Vec<u16> = (0..np).map(|_| c.u16()).collect();
  let mut ops = vec![];
  while !c.done() && ops.len() < 40 {
    let k = c.u8();
    ops.push(match k % 10 {
      0..=5 => {
        let flags = c.u8();
        let content = if flags & 0x20 != 0 { String::new() } else { crate::from_bytes::text_cfg(&mut c, GenCfg { max_tokens: 3, ..cfg }) };
        let a = AbsRepl::new(c.u16(), c.u16(), flags & 3 == 0, if flags & 0x1c == 0 { 1 + (flags >> 5) % 3 } else { 0 }, content, c.u8() % 6, c.u8() % 3);
        Op::Mut(concretize_repls(&t, &pool, &[a], true).pop().unwrap())
      }
      6 | 7 => Op::Obs(c.u8() % OBSERVERS.len() as u8),
      8 => Op::Fork,
      _ => Op::Switch(c.u8() % 4),
    });
  }
  Case { inner, ops }
}

impl Prop for C05 {
  type Case = Case;
  const ID: &'static str = "C05";
  fn rule(&self) -> String {
    "inner source: tree of depth<=1 over Raw*/Original leaves with 1-4 byte UTF-8 text; history of <=12 ops (second leg: 22-48 ops over <=2 cut points; third leg: 190-280 ops over <=3 cut points; fourth leg: 66-140 replacements recorded in ascending (start, end) order; fifth leg: more than 65 536 insertions at the two ends): \
     replace/insert/replace_with_enforce/insert_with_enforce with positions from a pool of <=5 char-boundary cut \
     points or beyond the end (up to u32::MAX), interleaved with 13 kinds of observer and with fork (clone the current object, keep both alive, up to 4) / switch \
     (continue on another live object); after every observer the \
     answer is compared with the splice model of the calls that object received, at the end every live object is, and the current one is compared with an unobserved twin. Non-trivial: the history \
     contains mutate,observe,mutate,observe, or two replacements with equal (start,end), or a position beyond \
     the end; distinct by hash of the case JSON".into()
  }
  fn legs(&self, _tier: Tier) -> Vec<Leg<Case>> {
    vec![
      Leg { name: "histories", source: Cases::Generated(Box::new(strategy), 500_000, 6_000_000) },
      Leg { name: "long histories (>20 replacements, colliding keys)", source: Cases::Generated(Box::new(strategy_long), 100_000, 1_500_000) },
      Leg { name: "66-140 replacements recorded in ascending (start, end) order, all enforce values", source: Cases::Generated(Box::new(strategy_monotone), 20_000, 300_000) },
      Leg { name: "more than 65 536 replacements", source: Cases::Generated(Box::new(strategy_bulk), 24, 200) },
      Leg { name: "very long histories (>128 replacements, colliding keys)", source: Cases::Generated(Box::new(strategy_very_long), 6_000, 80_000) },
    ]
  }
  fn stages(&self, ctx: &Ctx) -> Vec<Stage> {
    if ctx.tier == Tier::Thorough {
      crate::fuzz::campaigns("C05", &["hist_c05"], ctx)
    } else {
      vec![]
    }
  }
  fn check(&self, case: &Case) -> CheckResult {
    let text = model_text(&case.inner);
    let res = guard(|| -> Result<(), String> {
      // live objects (the first one and its clones), each with the mutating calls it has received
      let mut objs: Vec<(ReplaceSource<BoxSource>, Vec<Repl>)> = vec![(ReplaceSource::new(build(&case.inner)), vec![])];
      let mut cur = 0usize;
      let expanded = expand(&case.ops, text.len());
      for op in &expanded {
        match op {
          Op::Mut(r) => {
            apply_repl(&mut objs[cur].0, r);
            objs[cur].1.push(r.clone());
          }
          Op::Obs(k) => {
            let want = splice_text(&text, &objs[cur].1);
            observe(&objs[cur].0, *k, &want, case, &objs[cur].1)?;
          }
          Op::Fork => {
            if objs.len() < 4 {
              let c = (objs[cur].0.clone(), objs[cur].1.clone());
              objs.push(c);
              cur = objs.len() - 1;
            }
          }
          Op::Switch(k) => cur = *k as usize % objs.len(),
          Op::Bulk(..) => unreachable!("expanded"),
        }
      }
      // every live object still answers like the model of its own calls, and still holds its inner source
      for (i, (o, calls)) in objs.iter().enumerate() {
        if o.original().source() != text {
          return Err(format!("original() of live object {i} gives {:?}, the inner text is {text:?}", o.original().source()));
        }
        let want = splice_text(&text, calls);
        let g = o.source().to_string();
        if g != want {
          return Err(format!("final source() of live object {i} (of {}): {g:?}, the model of the calls it received gives {want:?}", objs.len()));
        }
      }
      let (obj, so_far) = objs.swap_remove(cur);
      drop(objs);
      // history independence: an unobserved twin
      let want = splice_text(&text, &so_far);
      let mut twin = ReplaceSource::new(build(&case.inner));
      for r in &so_far {
        apply_repl(&mut twin, r);
      }
      let (a, b) = (obj.source().to_string(), twin.source().to_string());
      if a != want || b != want {
        return Err(format!("final source(): observed object {a:?}, unobserved twin {b:?}, model {want:?}"));
      }
      if obj != twin {
        return Err("the observed object is != an unobserved twin with the same mutating calls".into());
      }
      if hash_of(&obj) != hash_of(&twin) {
        return Err("the observed object hashes differently from an unobserved twin".into());
      }
      let boxed: BoxSource = obj.clone().boxed();
      if boxed.source() != want {
        return Err("boxed clone gives a different text".into());
      }
      Ok(())
    });
    match res {
      Err(p) => return Err(p),
      Ok(Err(e)) => return Err(e),
      Ok(Ok(())) => {}
    }
    // non-trivial rule
    let kinds: Vec<bool> = case.ops.iter().filter(|o| matches!(o, Op::Mut(_) | Op::Obs(_))).map(|o| matches!(o, Op::Mut(_))).collect();
    let mut stage = 0;
    for m in &kinds {
      stage = match (stage, m) {
        (0, true) => 1,
        (1, false) => 2,
        (2, true) => 3,
        (3, false) => 4,
        (s, _) => s,
      };
    }
    let muts: Vec<&Repl> = case.ops.iter().filter_map(|o| if let Op::Mut(r) = o { Some(r) } else { None }).collect();
    let equal_keys = (0..muts.len()).any(|i| (0..i).any(|j| (muts[i].start, muts[i].end) == (muts[j].start, muts[j].end)));
    let beyond = muts.iter().any(|r| r.end as usize > text.len());
    let enforce_tie = (0..muts.len()).any(|i| {
      (0..i).any(|j| (muts[i].start, muts[i].end) == (muts[j].start, muts[j].end) && muts[i].enforce != muts[j].enforce)
    });
    Ok(
      CaseInfo::nt(stage == 4 || equal_keys || beyond)
        .class(stage == 4, "mutate,observe,mutate,observe")
        .class(equal_keys, "two replacements with equal (start,end)")
        .class(enforce_tie, "equal (start,end), different enforce")
        .class(beyond, "position beyond the end")
        .class(muts.len() > 20, "more than 20 replacements")
        .class(muts.len() > 128, "more than 128 replacements")
        .class(case.ops.iter().any(|o| matches!(o, Op::Bulk(n, _) if *n > 65_536)), "more than 65 536 replacements")
        .class(
          {
            // a clone made, then a mutation, an observation, a switch and another observation
            let fork = case.ops.iter().position(|o| matches!(o, Op::Fork));
            fork.is_some_and(|f| {
              let rest = &case.ops[f + 1..];
              rest.iter().any(|o| matches!(o, Op::Mut(_))) && rest.iter().any(|o| matches!(o, Op::Switch(_))) && rest.iter().filter(|o| matches!(o, Op::Obs(_))).count() >= 2
            })
          },
          "live clone diverging from its original, both observed",
        )
        .class(!text.is_ascii(), "multi-byte text"),
    )
  }
}
