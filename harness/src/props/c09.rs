//! C09 Combined source maps compose outer and inner attribution

use proptest::prelude::*;

use crate::build::build;
use crate::gen::{normalize, sms_inner, GenCfg};
use crate::model::lookup::*;
use crate::observe::{attr_from_map, guard, opts, positions, root_join, Attr};
use crate::props::common::TreeCase;
use crate::runner::*;
use crate::spec::{Orig, Seg, Spec};

pub struct C09;

fn strategy() -> BoxedStrategy<TreeCase> {
  let cfg = GenCfg { max_tokens: 12, ..GenCfg::positional() };
  // normalize: a file name shared by the outer and the inner map stays shared only for identical content
  sms_inner(cfg).prop_map(move |spec| TreeCase { spec: normalize(spec, cfg) }).boxed()
}

/// the same, with the outer map relative to a sourceRoot and the inner source named by the joined name
fn rooted_strategy() -> BoxedStrategy<TreeCase> {
  let cfg = GenCfg { max_tokens: 12, ..GenCfg::positional() };
  (sms_inner(cfg), 0u8..5u8).prop_map(move |(spec, style)| TreeCase { spec: crate::gen::rooted_inner(normalize(spec, cfg), style) }).boxed()
}

/// the original text (and the inner map's sourcesContent entry for it) larger than 64 KiB
fn huge_strategy() -> BoxedStrategy<TreeCase> {
  let cfg = GenCfg { max_tokens: 12, ..GenCfg::positional() };
  crate::gen::sms_inner_huge(cfg).prop_map(move |spec| TreeCase { spec: normalize(spec, cfg) }).boxed()
}

fn strip(a: &crate::observe::AttrFull) -> Attr {
  crate::observe::strip(a)
}

impl Prop for C09 {
  type Case = TreeCase;
  const ID: &'static str = "C09";
  fn rule(&self) -> String {
    "SourceMapSource with inner map from gen::sms_inner: ASCII generated text with a consistent outer map over 1-3 \
     sources one of which is the inner source name, outer original positions mostly inside (sometimes beside) the \
     original text, a consistent inner map over the original text (1-3 sources, names, optional sourceRoot), \
     now and then a file of the inner map carries the name of a file the outer map passes through (identical content), a third leg makes the original text (and the inner map's sourcesContent entry for it) larger than 64 KiB / 128 KiB, original_source given or taken from the outer sourcesContent, remove_original_source, both column settings; \
     map() is compared per byte with a reference composition over the generated segment lists. Non-trivial: \
     >=1 byte resolved through a mapped inner chunk and >=1 through the fallback or pass-through; distinct by hash \
     of the case JSON".into()
  }
  fn legs(&self, _tier: Tier) -> Vec<Leg<TreeCase>> {
    vec![
      Leg { name: "(outer, inner) pairs", source: Cases::Generated(Box::new(strategy), 600_000, 8_000_000) },
      Leg { name: "(outer, inner) pairs, outer map with a sourceRoot", source: Cases::Generated(Box::new(rooted_strategy), 150_000, 2_000_000) },
      Leg { name: "(outer, inner) pairs, original text larger than 64 KiB", source: Cases::Generated(Box::new(huge_strategy), 6_000, 60_000) },
    ]
  }
  fn check(&self, case: &TreeCase) -> CheckResult {
    let Spec::SmsInner { text, name: gname, map: outer, original, inner, remove } = &case.spec else {
      return Err("harness: C09 case must be SmsInner".into());
    };
    // the original text: given, or taken from the outer sourcesContent
    // (the inner source is the outer entry whose name, with the outer sourceRoot applied, is `name`)
    let w = (0..outer.sources.len()).position(|i| src_name(outer, i as u32) == *gname);
    let orig: String = original.clone().or_else(|| w.and_then(|w| outer.contents.get(w).cloned())).unwrap_or_default();
    let (pos, _) = positions(text);
    let ocv = cover(&outer.segs, text);
    let mut kept_outer_name = false;
    let mut used_inner = false;
    let mut used_other = false;
    // every answer is checked: on fresh objects, and on ONE object asked t, f, t, f (an answer kept from an earlier
    // call must still be the answer for the setting asked now), also through the streaming entry point in between
    let shared = build(&case.spec);
    for (k, columns) in [true, false, true, false, true, false].into_iter().enumerate() {
      let label = if k < 2 { String::new() } else { format!("one object asked map(t), map(f), stream, map(t), map(f): call {}: ", k - 2) };
      let map = if k < 2 {
        guard(|| build(&case.spec).map(&opts(columns, false)))
      } else {
        if k == 4 {
          let _ = guard(|| crate::observe::stream(&*shared, &opts(true, false)));
          let _ = guard(|| crate::observe::stream(&*shared, &opts(false, false)));
        }
        guard(|| shared.map(&opts(columns, false)))
      }
      .map_err(|p| format!("{label}map(columns={columns}): {p}"))?;
      let mut body = || -> Result<(), String> {
      let got_full = attr_from_map(map.as_ref(), text, columns)?;
      let got: Vec<Attr> = got_full.iter().map(strip).collect();
      let ms = map.as_ref().map(|m| m.mappings().to_string());
      // inner chunks: reference splitter over the original text
      let inner_segs: Vec<Seg> = if columns { inner.segs.clone() } else { lines_view(&inner.segs) };
      let ichunks = ref_chunks(&inner_segs, &orig);
      for i in 0..text.len() {
        // a = lookup(outer)
        let oa: Option<Orig> = if columns {
          ocv[i].and_then(|k| outer.segs[k].orig)
        } else {
          outer.segs.iter().find(|s| s.line == pos[i].0 && s.orig.is_some()).and_then(|s| s.orig).map(|o| Orig { name: None, ..o })
        };
        let g = got[i].clone();
        let lines = |a: Attr| a.map(|a| (a.0, a.1, 0u32, None::<String>));
        let Some(oa) = oa else {
          if g.is_some() {
            return Err(format!("columns={columns}: byte {i} of {text:?} is unmapped in the outer map but resolves to {g:?}; mappings={ms:?}"));
          }
          continue;
        };
        let oname = oa.name.map(|x| name_str(outer, x));
        if (oa.src as usize) >= outer.sources.len() || src_name(outer, oa.src) != *gname {
          // another source: passes through unchanged
          used_other = true;
          let want: Attr = Some((src_name(outer, oa.src), oa.line, oa.col, oname.clone()));
          let (w2, g2) = if columns { (want, g) } else { (lines(want), lines(g)) };
          if w2 != g2 {
            return Err(format!(
              "columns={columns}: byte {i} ({}:{}) of {text:?} points to another source and must pass through as {w2:?}, got {g2:?}; mappings={ms:?}",
              pos[i].0, pos[i].1
            ));
          }
          continue;
        }
        // locate the inner chunk on line a.line: the last chunk starting at or before a.col
        let ch = ichunks.iter().filter(|c| c.line == oa.line && c.col <= oa.col).last();
        let im = ch.and_then(|c| c.seg).and_then(|k| inner_segs[k].orig);
        match im {
          Some(io) => {
            used_inner = true;
            let ch = ch.unwrap();
            let file = src_name(inner, io.src);
            let loc = oa.col - ch.col;
            match &g {
              None => {
                return Err(format!(
                  "columns={columns}: byte {i} ({}:{}) of {text:?} points into the inner source at {}:{} which the inner map maps to {file}:{}:{}, but the result is unmapped; mappings={ms:?}",
                  pos[i].0, pos[i].1, oa.line, oa.col, io.line, io.col
                ))
              }
              Some((f, l, c, nm)) => {
                if *f != file || *l != io.line || (columns && !(*c >= io.col && *c <= io.col + loc)) {
                  return Err(format!(
                    "columns={columns}: byte {i} ({}:{}) of {text:?} -> inner {}:{} -> expected {file}:{} column in [{},{}], got {g:?}; mappings={ms:?}",
                    pos[i].0, pos[i].1, oa.line, oa.col, io.line, io.col, io.col + loc
                  ));
                }
                if columns {
                  let iname = io.name.map(|x| name_str(inner, x));
                  let content = inner.contents.get(io.src as usize).cloned();
                  let want_name = if *c == io.col && iname.is_some() {
                    iname
                  } else if *c != io.col {
                    // column was advanced (identity mapping): the inner name is dropped,
                    // an outer name survives only if the original text at that spot equals it
                    outer_name_if_matches(&oname, &content, io.line, *c)
                  } else {
                    outer_name_if_matches(&oname, &content, io.line, *c)
                  };
                  if want_name.is_some() && !(*c == io.col && io.name.is_some()) {
                    kept_outer_name = true;
                  }
                  if *nm != want_name {
                    return Err(format!(
                      "columns=true: byte {i} ({}:{}) of {text:?}: name {nm:?}, expected {want_name:?} (inner name, else the outer name only if it matches the original text, else none); got={g:?} mappings={ms:?}",
                      pos[i].0, pos[i].1
                    ));
                  }
                }
              }
            }
          }
          None => {
            used_other = true;
            let want: Attr = if *remove { None } else { Some((gname.clone(), oa.line, oa.col, oname.clone())) };
            let (w2, g2) = if columns { (want, g) } else { (lines(want), lines(g)) };
            if w2 != g2 {
              return Err(format!(
                "columns={columns}: byte {i} ({}:{}) of {text:?} points into the inner source at {}:{} where the inner map has no mapping; expected {w2:?} (remove_original_source={remove}), got {g2:?}; mappings={ms:?}",
                pos[i].0, pos[i].1, oa.line, oa.col
              ));
            }
          }
        }
      }
      // every reported file carries the matching content
      if let Some(mp) = &map {
        for (i, s) in mp.sources().iter().enumerate() {
          let c = mp.get_source_content(i).unwrap_or("");
          let want: Option<String> = if s == gname {
            Some(orig.clone())
          } else if let Some(j) = inner.sources.iter().position(|x| root_join(inner.root.as_deref(), x) == *s) {
            inner.contents.get(j).cloned()
          } else if let Some(j) = outer.sources.iter().position(|x| root_join(outer.root.as_deref(), x) == *s) {
            outer.contents.get(j).cloned()
          } else {
            return Err(format!("columns={columns}: reported source {s:?} is neither the inner source, nor in the inner or outer map"));
          };
          if want.clone().unwrap_or_default() != c {
            return Err(format!("columns={columns}: source {s:?} carries content {c:?}, expected {want:?}"));
          }
        }
        // indices inside tables (also C11)
        for sg in crate::observe::decode_map(mp)?.segs {
          if let Some(o) = sg.orig {
            if o.src as usize >= mp.sources().len() || o.name.is_some_and(|n| n as usize >= mp.names().len()) {
              return Err(format!("columns={columns}: segment {sg:?} uses an index outside the tables; mappings={ms:?}"));
            }
          }
        }
      }
      Ok(())
      };
      body().map_err(|e| format!("{label}{e}"))?;
    }
    Ok(
      CaseInfo::nt(used_inner && used_other)
        .class(used_inner, "byte resolved through a mapped inner chunk")
        .class(used_other, "byte resolved through fallback / pass-through")
        .class(*remove, "remove_original_source")
        .class(kept_outer_name, "an outer name is kept because it is the text at the original position")
        .class(original.is_none(), "original source taken from outer sourcesContent")
        .class(inner.root.as_deref().is_some_and(|r| !r.is_empty()), "inner sourceRoot")
        .class(outer.root.as_deref().is_some_and(|r| !r.is_empty()), "outer sourceRoot (inner source named by the joined name)")
        .class(
          inner.sources.iter().any(|i| outer.sources.iter().any(|o| o != gname && root_join(inner.root.as_deref(), i) == *o)),
          "a file of the inner map has the name of a file the outer map passes through",
        ),
    )
  }
}

fn outer_name_if_matches(oname: &Option<String>, content: &Option<String>, line: u32, col: u32) -> Option<String> {
  match (oname, content) {
    (Some(on), Some(ct)) => {
      let matches = line_of(ct, line).map(|ln| {
        let st = (col as usize).min(ln.len());
        let en = (st + on.len()).min(ln.len());
        &ln[st..en] == on.as_str()
      });
      // a line that does not exist in the content: the code compares the name with the empty string
      if matches.unwrap_or(on.is_empty()) {
        Some(on.clone())
      } else {
        None
      }
    }
    _ => None,
  }
}
