pub mod common;
pub mod c01;
pub mod c02;
pub mod c03;
pub mod c04;
pub mod c05;
pub mod c06;
pub mod c07;
pub mod c08;
pub mod c09;
pub mod c10;
pub mod c11;
pub mod c12;
pub mod c13;
pub mod c14;
pub mod c15;
pub mod c16;
pub mod c17;
pub mod c18;
pub mod c19;
pub mod c20;

use crate::runner::{replay_prop, run_prop, Ctx};

macro_rules! go {
  ($p:expr, $ctx:expr, $replay:expr) => {
    match $replay {
      Some(path) => replay_prop(&$p, $ctx, path),
      None => run_prop(&$p, $ctx),
    }
  };
}

pub fn dispatch(id: &str, ctx: &Ctx, replay: Option<&str>) -> i32 {
  match id {
    "C01" => go!(c01::C01, ctx, replay),
    "C02" => go!(c02::C02, ctx, replay),
    "C03" => go!(c03::C03, ctx, replay),
    "C04" => go!(c04::C04, ctx, replay),
    "C05" => go!(c05::C05, ctx, replay),
    "C06" => go!(c06::C06, ctx, replay),
    "C07" => go!(c07::C07, ctx, replay),
    "C08" => go!(c08::C08, ctx, replay),
    "C09" => go!(c09::C09, ctx, replay),
    "C10" => go!(c10::C10, ctx, replay),
    "C11" => go!(c11::C11, ctx, replay),
    "C12" => go!(c12::C12, ctx, replay),
    "C13" => go!(c13::C13, ctx, replay),
    "C14" => go!(c14::C14, ctx, replay),
    "C15" => go!(c15::C15, ctx, replay),
    "C16" => go!(c16::C16, ctx, replay),
    "C17" => go!(c17::C17, ctx, replay),
    "C18" => go!(c18::C18, ctx, replay),
    "C19" => go!(c19::C19, ctx, replay),
    "C20" => go!(c20::C20, ctx, replay),
    _ => {
      eprintln!("unknown property {id}");
      2
    }
  }
}
