//! Helpers shared by the tree properties.

use rspack_sources::BoxSource;
use serde::{Deserialize, Serialize};

use crate::build::build;
use crate::observe::{guard, opts, stream, Stream};
use crate::spec::{model_text, Spec};

/// A tree plus nothing else; most tree properties use it as their case type.
#[derive(Clone, Debug, Serialize, Deserialize)]
pub struct TreeCase {
  pub spec: Spec,
}

/// `SourceMapSource` / `CachedSource` subtree carrying non-ASCII text: its
/// chunks are cut by a map, whose columns count chars.
pub fn non_ascii_mapdriven(s: &Spec) -> bool {
  match s {
    Spec::Sms { .. } | Spec::SmsInner { .. } | Spec::Cached(_) => !model_text(s).is_ascii(),
    _ => s.children().iter().any(|c| non_ascii_mapdriven(c)),
  }
}

/// Shape of known finding W2 (see DESIGN.md): a ReplaceSource with at least
/// one replacement above map-driven chunks with non-ASCII text.
pub fn w2_shape(s: &Spec) -> bool {
  s.any(&|n| match n {
    Spec::Replace { inner, repls } => !repls.is_empty() && non_ascii_mapdriven(inner),
    _ => false,
  })
}

/// A CachedSource above a W2 shape: its replay re-derives chunks from a map
/// built with the garbled columns (second signature of the same root cause).
pub fn w2_cached_above(s: &Spec) -> bool {
  s.any(&|n| matches!(n, Spec::Cached(i) if unit_mix(i)))
}

/// A subtree whose streamed positions can mix column units for non-ASCII text:
/// a SourceMapSource with non-ASCII text (its splitter counts chars while its own end
/// position, ConcatSource offsets and OriginalSource tokens count bytes), or the W2 shape.
pub fn unit_mix(s: &Spec) -> bool {
  w2_shape(s)
    || s.any(&|n| match n {
      Spec::Sms { text, .. } | Spec::SmsInner { text, .. } => !text.is_ascii(),
      _ => false,
    })
}

/// The only failure tolerated inside the W2 shape: an arithmetic-overflow
/// panic raised in concat_source.rs / replace_source.rs / encoder.rs.
pub fn is_w2_panic(msg: &str) -> bool {
  (msg.contains("attempt to add with overflow") || msg.contains("attempt to subtract with overflow"))
    && (msg.contains("concat_source.rs") || msg.contains("replace_source.rs") || msg.contains("encoder.rs"))
}

/// Third signature of W2: a ReplaceSource (>= 1 replacement) above a CachedSource above a
/// unit-mixing subtree.  The replayed chunks no longer reassemble to the text (second signature),
/// so the byte positions the ReplaceSource cuts at drift into the middle of a multi-byte character
/// and `Rope::byte_slice` panics.
pub fn w2_replay_cut_shape(s: &Spec) -> bool {
  s.any(&|n| match n {
    Spec::Replace { inner, repls } => !repls.is_empty() && w2_cached_above(inner),
    _ => false,
  })
}

pub fn is_w2_replay_cut_panic(msg: &str) -> bool {
  msg.contains("byte_slice: rope error") && msg.contains("rope.rs")
}

/// Result of a guarded library call inside a property.
pub enum Lib<T> {
  Ok(T),
  /// tolerated known-finding failure (counted as excluded_known)
  Known,
}

/// Call into the library; a panic is a violation of the calling property
/// unless it is the W2 signature inside the W2 shape (and not in strict mode).
pub fn lib<T>(spec: &Spec, what: &str, f: impl FnOnce() -> T) -> Result<Lib<T>, String> {
  match guard(f) {
    Ok(v) => Ok(Lib::Ok(v)),
    Err(p) => {
      if !crate::known::strict()
        && ((w2_shape(spec) && is_w2_panic(&p)) || (w2_replay_cut_shape(spec) && is_w2_replay_cut_panic(&p)))
      {
        Ok(Lib::Known)
      } else {
        Err(format!("{what}: {p}"))
      }
    }
  }
}

#[macro_export]
macro_rules! lib_or_known {
  ($spec:expr, $what:expr, $e:expr) => {
    match $crate::props::common::lib($spec, $what, || $e)? {
      $crate::props::common::Lib::Ok(v) => v,
      $crate::props::common::Lib::Known => {
        return Ok($crate::runner::CaseInfo { excluded_known: true, ..Default::default() })
      }
    }
  };
}

pub fn fresh(spec: &Spec) -> BoxSource {
  build(spec)
}

pub fn fresh_stream(spec: &Spec, columns: bool, final_source: bool) -> Result<Stream, String> {
  guard(|| {
    let s = build(spec);
    stream(&*s, &opts(columns, final_source))
  })
}

/// number of nodes
pub fn size(spec: &Spec) -> usize {
  spec.count(&|_| true)
}

/// structural classes reported in the evidence histogram
pub fn tree_classes(spec: &Spec, info: &mut crate::runner::CaseInfo) {
  let c = &mut info.classes;
  if spec.has_replace() {
    c.push("has ReplaceSource");
  }
  if spec.has_cached() {
    c.push("has CachedSource");
  }
  if spec.has_sms() {
    c.push("has SourceMapSource");
  }
  if spec.any(&|s| matches!(s, Spec::SmsInner { .. })) {
    c.push("has SourceMapSource with inner map");
  }
  if spec.any(&|s| matches!(s, Spec::Concat { children, .. } if children.len() >= 2)) {
    c.push("has ConcatSource with >=2 children");
  }
  if spec.any(&|s| {
    matches!(s, Spec::Concat { how, children } if *how != 1 && children.iter().any(|c| matches!(c, Spec::Concat { .. })))
  }) {
    c.push("has boxed (unflattened) nested ConcatSource");
  }
  if spec.any(&|s| match s {
    Spec::Replace { inner, repls } => {
      let t = model_text(inner);
      repls.iter().any(|r| {
        let (a, b) = ((r.start as usize).min(t.len()), (r.end as usize).min(t.len()));
        t[a..b.max(a)].contains('\n') != r.content.contains('\n')
      })
    }
    _ => false,
  }) {
    c.push("replacement deleting or inserting a line break");
  }
  if spec.depth() >= 2 {
    c.push("depth>=2");
  }
}

/// binary leaves that are not beneath a ReplaceSource (whose positions were chosen for the text as
/// generated) get invalid UTF-8 sequences now and then: buffer() and the lossy source() then differ
pub fn with_binary(mut s: Spec, sel: &[u16]) -> Spec {
  const BAD: &[&[u8]] = &[b"\xff", b"\x80", b"\xc3", b"\xe6\x97", b"\xf0\x9f\x98", b"\xc0\xaf", b"\xed\xa0\x80", b"\xfe\xff"];
  fn go(s: &mut Spec, sel: &[u16], k: &mut usize) {
    match s {
      Spec::RawBytes(b) | Spec::RawBuf(b) => {
        let x = sel.get(*k).copied().unwrap_or(1);
        *k += 1;
        if x % 2 == 0 {
          let at = crate::gen::idx(x, b.len() + 1);
          let bad = BAD[(x as usize / 2) % BAD.len()];
          b.splice(at..at, bad.iter().copied());
        }
      }
      Spec::Concat { children, .. } => children.iter_mut().for_each(|c| go(c, sel, k)),
      Spec::Cached(inner) | Spec::Boxed(inner) => go(inner, sel, k),
      _ => {}
    }
  }
  let mut k = 0;
  go(&mut s, sel, &mut k);
  s
}



/// The sequence of ingredients a tree feeds to a hasher, in the library's order, with the composite
/// boundaries it does NOT mark left out: a ConcatSource contributes its tag and then its children back to
/// back (no count, no terminator); a ReplaceSource its tag, its replacements in sorted order and then its
/// inner source; a Box nothing of its own; a CachedSource hashes its inner source separately and
/// contributes one value, a function of the inner sequence; leaves are atomic.
pub fn hash_tokens(s: &Spec, built_how: bool) -> Vec<String> {
  match s {
    Spec::Concat { how, children } => {
      let _ = (how, built_how);
      let mut v = vec!["ConcatSource".to_string()];
      for c in children {
        v.extend(hash_tokens(c, built_how));
      }
      v
    }
    Spec::Replace { inner, repls } => {
      let mut r: Vec<(usize, &crate::spec::Repl)> = repls.iter().enumerate().collect();
      r.sort_by_key(|(i, p)| (p.start, p.end, p.enforce, *i));
      let mut v = vec!["ReplaceSource".to_string()];
      v.extend(r.into_iter().map(|(_, p)| format!("{p:?}")));
      v.extend(hash_tokens(inner, built_how));
      v
    }
    Spec::Boxed(inner) => hash_tokens(inner, built_how),
    // one value, computed by feeding the inner source's sequence to the CachedSource's own hasher: two inner trees with the
    // same sequence give the same value (K2 beneath a CachedSource is still K2)
    Spec::Cached(inner) => vec![format!("CachedSource<{}>", hash_tokens(inner, built_how).join("\u{1}"))],
    other => vec![serde_json::to_string(other).unwrap_or_default()],
  }
}

/// Shape of known finding K2: two different trees whose hash input is the same sequence by construction
/// (they differ only in where ConcatSource child lists end).
pub fn k2_shape(x: &Spec, y: &Spec) -> bool {
  x != y && hash_tokens(x, false) == hash_tokens(y, false)
}

/// A hasher that, unlike SipHash and FNV, is sensitive to how the bytes are cut into `write` calls (as FxHasher is,
/// which the library itself uses inside CachedSource): every call mixes in its own length.  The sequence of calls a
/// `Hash` impl makes must be a function of the value, not of where the value lives.
pub fn hash_split(s: &dyn rspack_sources::Source) -> u64 {
  struct Split(u64);
  impl std::hash::Hasher for Split {
    fn finish(&self) -> u64 {
      self.0
    }
    fn write(&mut self, bytes: &[u8]) {
      self.0 = (self.0.rotate_left(5) ^ bytes.len() as u64).wrapping_mul(0x517cc1b727220a95);
      for b in bytes {
        self.0 = (self.0.rotate_left(5) ^ *b as u64).wrapping_mul(0x517cc1b727220a95);
      }
    }
  }
  let mut h = Split(0);
  s.update_hash(&mut h);
  std::hash::Hasher::finish(&h)
}
