//! C12 Mappings codec round-trips and matches the source-map v3 format

use proptest::collection::vec;
use proptest::prelude::*;
use rspack_sources::{decode_mappings, encode_mappings, Mapping, OriginalLocation, SourceMap};
use serde::{Deserialize, Serialize};

use crate::model::vlq;
use crate::observe::guard;
use crate::runner::*;
use crate::spec::{Orig, Seg};

pub struct C12;

#[derive(Clone, Debug, Serialize, Deserialize)]
pub enum Case {
  /// a sorted mapping sequence
  Seq(Vec<Seg>),
  /// a two-segment sequence realising one delta of one field
  Delta { field: u8, base: u32, delta: i64 },
  /// a well-formed string in an unusual spelling: segments (columns may go backwards
  /// within a line), redundant continuation digits per number, extra separators
  Spelled { segs: Vec<Seg>, redundant: Vec<u8>, extra: Vec<(u16, bool)> },
  /// a well-formed string given literally
  Str(String),
}

/// the segments most maps consist of (repeat, next original line, next column, named, 1-field, ...)
const COMMON: &[&str] = &["AAAA", "AACA", "CAAA", "A", "C", "AAAAA", "EAEA", "AAgBA"];

/// every string of up to 5 common segments, each followed by ',' or ';' (or nothing at the end)
fn common_strings() -> Box<dyn Iterator<Item = Case> + Send> {
  let mut all: Vec<String> = vec![String::new()];
  let mut level: Vec<String> = vec![String::new()];
  for _ in 0..5 {
    let mut next = vec![];
    for s in &level {
      for t in COMMON {
        for sep in [",", ";"] {
          next.push(format!("{s}{t}{sep}"));
        }
      }
    }
    // the same strings without the trailing separator
    all.extend(next.iter().map(|s| s[..s.len() - 1].to_string()));
    all.extend(next.iter().cloned());
    level = next;
  }
  Box::new(all.into_iter().map(Case::Str))
}

fn to_mapping(s: &Seg) -> Mapping {
  Mapping {
    generated_line: s.line,
    generated_column: s.col,
    original: s.orig.map(|o| OriginalLocation {
      source_index: o.src,
      original_line: o.line,
      original_column: o.col,
      name_index: o.name,
    }),
  }
}
fn from_mapping(m: &Mapping) -> Seg {
  Seg {
    line: m.generated_line,
    col: m.generated_column,
    orig: m.original.as_ref().map(|o| Orig { src: o.source_index, line: o.original_line, col: o.original_column, name: o.name_index }),
  }
}

pub fn crate_decode(s: &str) -> Vec<Seg> {
  if s.len() > 2000 {
    // long strings are decoded on an ordinary 2 MiB stack
    return crate::runner::on_small_stack(|| crate_decode_here(s));
  }
  crate_decode_here(s)
}

fn crate_decode_here(s: &str) -> Vec<Seg> {
  let m = SourceMap::new(s, Vec::<String>::new(), Vec::<String>::new(), Vec::<String>::new());
  let a: Vec<Seg> = decode_mappings(&m).map(|m| from_mapping(&m)).collect();
  let b: Vec<Seg> = m.decoded_mappings().map(|m| from_mapping(&m)).collect();
  assert_eq!(a, b, "decode_mappings and decoded_mappings disagree");
  a
}

fn big(sel: u16, wide: u8) -> u32 {
  // values spread over all VLQ digit counts up to 2^30
  let shift = (wide % 31) as u32;
  let base = 1u32 << shift;
  (base - 1).wrapping_add((sel as u32) % 3).min(1 << 30)
}

fn seq_strategy() -> BoxedStrategy<Case> {
  (
    // a small pool of original locations that segments keep coming back to (alternations such as
    // L, unmapped, L or L, L+name, L are what the encoder's skip rules are about)
    vec(((any::<u16>(), any::<u8>()), (any::<u16>(), any::<u8>()), (any::<u16>(), any::<u8>()), (0u8..4u8, any::<u16>(), any::<u8>())), 1..=3),
    vec((any::<u16>(), any::<u8>(), 0u8..6u8, 0u8..10u8, any::<bool>(), ((any::<u16>(), any::<u8>()), (any::<u16>(), any::<u8>()), (any::<u16>(), any::<u8>()))), 0..=10),
  )
    .prop_map(|(pool, v)| {
      let mut pool: Vec<Orig> = pool
        .into_iter()
        .map(|(src, ol, oc, nm)| Orig {
          src: big(src.0, src.1 % 22),
          line: 1 + big(ol.0, ol.1),
          col: big(oc.0, oc.1),
          name: if nm.0 == 0 { None } else { Some(big(nm.1, nm.2 % 22)) },
        })
        .collect();
      // now and then the second location is the first one a line further (what line-by-line code produces)
      if pool.len() >= 2 && pool[1].col % 3 == 0 {
        pool[1] = Orig { line: pool[0].line.saturating_add(1).min(1 << 30), name: pool[1].name.filter(|_| pool[1].src % 2 == 0), ..pool[0] };
      }
      let mut out: Vec<Seg> = vec![];
      let (mut l, mut c) = (1u32, 0u32);
      for (k, (cs, cw, step, pick, flip_name, fresh)) in v.into_iter().enumerate() {
        match step {
          0 => {
            // (now and then a gap of a few hundred lines; rarely one of tens of thousands)
            l += 1 + (cs as u32 % 3) + if cw == 0 { 200 } else { 0 } + if cw == 1 && cs % 64 == 0 { 70_000 + (cs as u32) * 2 } else { 0 };
            c = if cs % 2 == 0 { 0 } else { big(cs, cw) };
          }
          _ => {
            if k > 0 {
              // mostly small steps (so that several segments share a line), sometimes wide ones
              let d = if step < 4 { 1 + (cs as u32 % 3) } else { 1 + big(cs, cw) };
              c = c.saturating_add(d).min(1 << 30);
              if out.last().is_some_and(|s: &Seg| s.line == l && s.col >= c) {
                l += 1;
                c = 0;
              }
            }
          }
        }
        let orig = match pick {
          0 | 1 => None,
          2..=7 => {
            let mut o = pool[(pick as usize - 2) % pool.len()];
            if flip_name {
              o.name = match o.name {
                Some(_) => None,
                None => Some(0),
              };
            }
            Some(o)
          }
          _ => Some(Orig { src: big(fresh.0 .0, fresh.0 .1 % 22), line: 1 + big(fresh.1 .0, fresh.1 .1), col: big(fresh.2 .0, fresh.2 .1), name: None }),
        };
        out.push(Seg { line: l, col: c, orig });
      }
      out.sort_by_key(|s| (s.line, s.col));
      out.dedup_by_key(|s| (s.line, s.col));
      Case::Seq(out)
    })
    .boxed()
}

/// every sequence of up to 5 segments over {unmapped, A, A+name0, A+name1, B, A'} x {same line, new line}
/// (A' = A one original line further, same column)
fn small_sequences() -> Box<dyn Iterator<Item = Case> + Send> {
  let a = Orig { src: 0, line: 1, col: 0, name: None };
  let kinds: [Option<Orig>; 6] = [
    None,
    Some(a),
    Some(Orig { name: Some(0), ..a }),
    Some(Orig { name: Some(1), ..a }),
    Some(Orig { src: 1, line: 2, col: 4, name: None }),
    Some(Orig { line: 2, ..a }),
  ];
  let mut all: Vec<Vec<(bool, usize)>> = vec![vec![]];
  let mut level: Vec<Vec<(bool, usize)>> = vec![vec![]];
  for _ in 0..5 {
    let mut next = vec![];
    for s in &level {
      for nl in [false, true] {
        for k in 0..6 {
          let mut t = s.clone();
          t.push((nl, k));
          next.push(t);
        }
      }
    }
    all.extend(next.iter().cloned());
    level = next;
  }
  Box::new(all.into_iter().map(move |seq| {
    let (mut l, mut c) = (1u32, 0u32);
    let mut out = vec![];
    for (i, (nl, k)) in seq.into_iter().enumerate() {
      if nl {
        l += 1;
        c = 0;
      } else if i > 0 {
        c += 2;
      }
      out.push(Seg { line: l, col: c, orig: kinds[k] });
    }
    Case::Seq(out)
  }))
}

fn spelled_strategy() -> BoxedStrategy<Case> {
  (
    vec(
      (
        (0u8..4u8, 0u32..40u32, proptest::option::weighted(0.8, (0u32..5u32, 1u32..2000u32, 0u32..70000u32, proptest::option::weighted(0.4, 0u32..40u32)))),
        // relation to the previous segment: 0-1 none; 2 original location = previous + (-1..=1) per field;
        // 3 the same and at the previous generated column (a zero-width segment)
        (0u8..4u8, 0u8..3u8, 0u8..3u8, 0u8..3u8),
      ),
      0..=8,
    ),
    // redundant continuation digits per number: mostly 0-3, now and then 40-70 (far beyond any value's own length)
    vec(prop_oneof![30 => 0u8..4u8, 1 => 40u8..70u8], 0..=40),
    vec((any::<u16>(), any::<bool>()), 0..=4),
  )
    .prop_map(|(raw, redundant, extra)| {
      let mut l = 1u32;
      let mut prev: Option<(u32, Orig)> = None;
      let segs = raw
        .into_iter()
        .map(|((dl, col, o), (rel, d0, d1, d2))| {
          if dl == 0 {
            l += 1;
          } else if dl == 1 {
            l += 3;
          }
          let mut seg = Seg { line: l, col, orig: o.map(|(src, line, col, name)| Orig { src, line, col, name }) };
          if let (true, Some((pc, po)), Some(o)) = (rel >= 2, prev, seg.orig.as_mut()) {
            let near = |v: u32, d: u8, min: u32| (v + d as u32).saturating_sub(1).max(min);
            o.src = near(po.src, d0, 0);
            o.line = near(po.line, d1, 1);
            o.col = near(po.col, d2, 0);
            if rel == 3 {
              seg.col = pc;
            }
          }
          if let Some(o) = seg.orig {
            prev = Some((seg.col, o));
          }
          seg
        })
        .collect();
      Case::Spelled { segs, redundant, extra }
    })
    .boxed()
}

/// expected survivors of the crate's encoder: everything except a repeat of the
/// active original location (no name involved) and unmapped segments with nothing active
fn surviving(ms: &[Seg]) -> Vec<Seg> {
  let mut active: Option<(u32, Orig)> = None;
  let mut want = vec![];
  for m in ms {
    match m.orig {
      None => {
        if active.as_ref().is_some_and(|a| a.0 == m.line) {
          want.push(*m);
        }
        active = None;
      }
      Some(o) => {
        let repeat = active.as_ref().is_some_and(|a| {
          a.0 == m.line && a.1.src == o.src && a.1.line == o.line && a.1.col == o.col && a.1.name.is_none() && o.name.is_none()
        });
        if !repeat {
          want.push(*m);
        }
        active = Some((m.line, o));
      }
    }
  }
  want
}

fn check_seq(x: &[Seg]) -> Result<(), String> {
  let s = encode_mappings(x.iter().map(to_mapping));
  if let Some(c) = s.bytes().find(|c| vlq::b64_value(*c).is_none() && *c != b',' && *c != b';') {
    return Err(format!("encode_mappings produced the character {:?}", c as char));
  }
  let d = crate_decode(&s);
  let rd = vlq::decode(&s).map_err(|e| format!("the independent decoder rejects the crate's output {s:?}: {e:?}"))?;
  if d != rd {
    return Err(format!("decode_mappings({s:?}) = {d:?}, an independent v3 decoder reads {rd:?}"));
  }
  let want = surviving(x);
  if d != want {
    return Err(format!("encode then decode of {x:?} gives {d:?}; expected the input minus droppable segments {want:?} (string {s:?})"));
  }
  let s2 = encode_mappings(d.iter().map(to_mapping));
  if s2 != s {
    return Err(format!("re-encoding the decoded segments gives {s2:?}, first encoding was {s:?}"));
  }
  // the independent encoder writes every segment; the crate must read them all back
  let s3 = vlq::encode(x);
  let d3 = crate_decode(&s3);
  if d3 != x {
    return Err(format!("decode_mappings of the independently encoded {s3:?} gives {d3:?}, expected {x:?}"));
  }
  // line-only encoder: first mapped segment of each line, at column 0, without name
  let ls = rspack_sources::verif::encode_mappings_lines_only(x.iter().map(to_mapping));
  let ld = crate_decode(&ls);
  let lrd = vlq::decode(&ls).map_err(|e| format!("the independent decoder rejects the line-only output {ls:?}: {e:?}"))?;
  if ld != lrd {
    return Err(format!("decode_mappings({ls:?}) = {ld:?}, an independent v3 decoder reads {lrd:?}"));
  }
  let mut want_lines: Vec<(u32, u32, u32)> = vec![];
  for m in x {
    if let Some(o) = m.orig {
      if want_lines.last().map(|w| w.0) != Some(m.line) {
        want_lines.push((m.line, o.src, o.line));
      }
    }
  }
  let got_lines: Vec<(u32, u32, u32)> = ld.iter().filter_map(|s| s.orig.map(|o| (s.line, o.src, o.line))).collect();
  if got_lines != want_lines || ld.iter().any(|s| s.col != 0 || s.orig.is_none() || s.orig.is_some_and(|o| o.name.is_some())) {
    return Err(format!("line-only encoding of {x:?} decodes to {ld:?}; expected exactly the first mapped segment of each line {want_lines:?} at column 0 without name (string {ls:?})"));
  }
  Ok(())
}

impl Prop for C12 {
  type Case = Case;
  const ID: &'static str = "C12";
  fn rule(&self) -> String {
    "leg 1: sorted mapping sequences (0-10 segments drawing their original location from a pool of 1-3 locations, with names \
     flipped on and off, or unmapped, or fresh) with columns, source/name \
     indices, original lines/columns and their deltas spread over every VLQ digit count up to 2^30, both signs, 1-/4-/5-field, \
     empty lines and gaps; leg 2 (exhaustive): for each of the five fields every delta d with |d| < 2^18 (quick) / 2^20 \
     (thorough) realised by a two-segment sequence; leg 2b (exhaustive): every sequence of <=5 segments over {unmapped, A, A+name0, A+name1, B, A one original line further} x {same line, new line}; leg 4 (exhaustive): every string of <=5 segments from {AAAA, AACA, CAAA, A, C, AAAAA, EAEA, AAgBA} separated by ',' / ';', read by decode_mappings and by the independent decoder; leg 3: well-formed strings written by an independent encoder with \
     redundant continuation digits, empty segments, runs of ';', columns going backwards or standing still, original locations one step away from the previous one. Oracle: independent v3 \
     decoder/encoder + drop rule + line-only rule. Non-trivial: a delta of magnitude >= 16 (crosses a VLQ digit boundary) \
     or a negative delta, or (leg 3) a redundant digit / empty segment; distinct by hash of the case JSON".into()
  }
  fn legs(&self, _tier: Tier) -> Vec<Leg<Case>> {
    vec![
      Leg { name: "sorted sequences", source: Cases::Generated(Box::new(seq_strategy), 400_000, 5_000_000) },
      Leg {
        name: "every single-field delta (exhaustive)",
        source: Cases::Enumerated(Box::new(|tier| {
          let lim: i64 = tier.pick(1 << 18, 1 << 20);
          Box::new((0u8..5u8).flat_map(move |field| {
            let lo = if field == 0 { 1 } else { -(lim - 1) };
            (lo..lim).map(move |delta| Case::Delta { field, base: if delta < 0 { (-delta) as u32 + 3 } else { 3 }, delta })
          }))
        })),
      },
      Leg { name: "every sequence of <=5 segments over a 6-letter alphabet (exhaustive)", source: Cases::Enumerated(Box::new(|_| small_sequences())) },
      Leg { name: "unusual spellings", source: Cases::Generated(Box::new(spelled_strategy), 400_000, 4_000_000) },
      Leg { name: "every string of <=5 common segments (exhaustive)", source: Cases::Enumerated(Box::new(|_| common_strings())) },
    ]
  }
  fn extra_coverage(&self, tier: Tier) -> std::collections::BTreeMap<String, serde_json::Value> {
    [
      ("exhaustive".to_string(), serde_json::Value::Bool(false)),
      ("exhaustive_subspace".to_string(), format!("all single-field deltas of magnitude < 2^{} for each of the 5 fields", tier.pick(18, 20)).into()),
    ]
    .into_iter()
    .collect()
  }
  fn stages(&self, ctx: &Ctx) -> Vec<Stage> {
    if ctx.tier == Tier::Thorough {
      crate::fuzz::campaigns("C12", &["codec"], ctx)
    } else {
      vec![]
    }
  }
  fn check(&self, case: &Case) -> CheckResult {
    let r = guard(|| -> Result<CaseInfo, String> {
      match case {
        Case::Seq(x) => {
          check_seq(x)?;
          // deltas
          let mut nt = false;
          let mut prev: Option<Orig> = None;
          let mut pc: (u32, u32) = (0, 0);
          for s in x {
            let dc = if s.line == pc.0 { s.col as i64 - pc.1 as i64 } else { s.col as i64 };
            nt |= dc.abs() >= 16;
            if let (Some(o), Some(p)) = (s.orig, prev) {
              for d in [o.src as i64 - p.src as i64, o.line as i64 - p.line as i64, o.col as i64 - p.col as i64] {
                nt |= d.abs() >= 16 || d < 0;
              }
            }
            if s.orig.is_some() {
              prev = s.orig;
            }
            pc = (s.line, s.col);
          }
          Ok(CaseInfo::nt(nt).class(surviving(x).len() < x.len(), "sequence with a droppable segment").class(x.iter().any(|s| s.orig.is_none()), "1-field segment"))
        }
        Case::Delta { field, base, delta } => {
          let v2 = (*base as i64 + *delta) as u32;
          let mk = |col: u32, src: u32, ol: u32, oc: u32, nm: u32| Seg { line: 1, col, orig: Some(Orig { src, line: ol, col: oc, name: Some(nm) }) };
          let x = match field {
            0 => vec![mk(*base, 0, 1, 0, 0), mk(v2, 1, 1, 0, 0)],
            1 => vec![mk(0, *base, 1, 0, 0), mk(1, v2, 1, 0, 0)],
            2 => vec![mk(0, 0, *base, 0, 0), mk(1, 0, v2, 0, 0)],
            3 => vec![mk(0, 0, 1, *base, 0), mk(1, 0, 1, v2, 0)],
            _ => vec![mk(0, 0, 1, 0, *base), mk(1, 0, 1, 0, v2)],
          };
          check_seq(&x)?;
          Ok(CaseInfo::nt(delta.abs() >= 16 || *delta < 0))
        }
        Case::Spelled { segs, redundant, extra } => {
          let mut k = 0usize;
          let mut s = vlq::encode_with(segs, &mut |_| {
            let r = redundant.get(k).copied().unwrap_or(0) as usize;
            k += 1;
            r
          });
          // extra separators: empty segments and empty lines at the end / start do not change the reading
          let mut shift_lines = 0u32;
          for (pos, semi) in extra {
            if *semi {
              // a run of ';' at the very start shifts every line
              s.insert(0, ';');
              shift_lines += 1;
              let _ = pos;
            } else {
              // an empty segment: a ',' next to an existing separator or at an end
              let cands: Vec<usize> = (0..=s.len())
                .filter(|&i| i == 0 || i == s.len() || matches!(s.as_bytes()[i - 1], b',' | b';') || matches!(s.as_bytes().get(i), Some(b',') | Some(b';')))
                .collect();
              let at = cands[crate::gen::idx(*pos, cands.len())];
              s.insert(at, ',');
            }
          }
          let want: Vec<Seg> = segs.iter().map(|g| Seg { line: g.line + shift_lines, ..*g }).collect();
          let rd = vlq::decode(&s).map_err(|e| format!("harness: the independent decoder rejects its own spelling {s:?}: {e:?}"))?;
          if rd != want {
            return Err(format!("harness: independent decoder reads {rd:?} from {s:?}, expected {want:?}"));
          }
          let d = crate_decode(&s);
          if d != want {
            return Err(format!("decode_mappings({s:?}) = {d:?}; the format defines {want:?}"));
          }
          let odd = redundant.iter().take(k).any(|r| *r > 0) || !extra.is_empty();
          let backwards = segs.windows(2).any(|w| w[0].line == w[1].line && w[1].col < w[0].col);
          let zero_width = segs.windows(2).any(|w| w[0].line == w[1].line && w[1].col == w[0].col);
          Ok(CaseInfo::nt(odd || backwards).class(zero_width, "two segments at one generated position").class(backwards, "columns going backwards").class(redundant.iter().take(k).any(|r| *r > 0), "redundant continuation digit").class(!extra.is_empty(), "empty segment / extra ';'"))
        }
        Case::Str(s) => {
          let rd = vlq::decode(s).map_err(|e| format!("harness: the independent decoder rejects {s:?}: {e:?}"))?;
          let d = crate_decode(s);
          if d != rd {
            return Err(format!("decode_mappings({s:?}) = {d:?}; the format defines {rd:?}"));
          }
          Ok(CaseInfo::nt(rd.len() >= 2).class(s.contains(",AACA;") || s.contains(",AAAA;"), "common segment last on its line, not first"))
        }
      }
    });
    match r {
      Err(p) => Err(p),
      Ok(x) => x,
    }
  }
}
