//! C01 Streamed chunks reassemble exactly to source()

use proptest::strategy::Strategy;

use crate::build::build;
use crate::gen::{tree, GenCfg};
use crate::lib_or_known;
use crate::observe::{opts, stream};
use crate::props::common::*;
use crate::runner::*;
use crate::spec::{model_text, Spec};

pub struct C01;

fn reslices(spec: &Spec) -> bool {
  spec.any(&|s| match s {
    Spec::Replace { inner, repls } => !repls.is_empty() && !model_text(inner).is_empty(),
    Spec::Cached(i) => !model_text(i).is_empty(),
    Spec::Sms { map, .. } | Spec::SmsInner { map, .. } => {
      map.segs.windows(2).any(|w| w[0].line == w[1].line)
    }
    _ => false,
  })
}

impl Prop for C01 {
  type Case = TreeCase;
  const ID: &'static str = "C01";
  fn rule(&self) -> String {
    "trees from gen::tree(wild): depth<=3, <=4 children, 0-10 tokens of 1-4 byte UTF-8 per leaf, \
     replacement sets from a pool of <=6 cut points on char boundaries plus positions beyond the end, \
     consistent and wild (sorted, out-of-text / out-of-table) maps on SourceMapSource leaves; each tree \
     is streamed cold, warm (same object again) and after map(), and on a second object map() comes first and two streams follow, with both column settings; \
     chunks are read only after the stream call returned, from memory that the allocator of the checking binary overwrites when it is freed. \
     Non-trivial: the tree contains a composite that re-slices chunks (ReplaceSource with >=1 replacement \
     over non-empty text, a CachedSource replay, or a SourceMapSource with >=2 segments on one line); \
     distinct by hash of the case JSON".into()
  }
  fn legs(&self, _tier: Tier) -> Vec<Leg<TreeCase>> {
    vec![
      Leg {
        name: "wild trees",
        source: Cases::Generated(Box::new(|| tree(GenCfg::wild()).prop_map(|spec| TreeCase { spec }).boxed()), 120_000, 3_000_000),
      },
      Leg {
        name: "stacks of 2-3 ReplaceSources with insertions at the end of the innermost one",
        source: Cases::Generated(Box::new(|| crate::gen::replace_stack(GenCfg { max_tokens: 5, ..GenCfg::wild() }).prop_map(|spec| TreeCase { spec }).boxed()), 100_000, 1_500_000),
      },
      Leg {
        name: "SourceMapSource with a line longer than 64 KiB",
        source: Cases::Generated(Box::new(|| crate::gen::huge_line_tree().prop_map(|spec| TreeCase { spec }).boxed()), 400, 6_000),
      },
      Leg {
        name: "larger wild trees (depth<=4, <=6 children, <=30 tokens)",
        source: Cases::Generated(Box::new(|| tree(GenCfg::wild_large()).prop_map(|spec| TreeCase { spec }).boxed()), 30_000, 500_000),
      },
      Leg {
        // the whole tree under a CachedSource: the warm and after-map rounds replay at the root
        name: "cached roots (ASCII trees under a CachedSource)",
        source: Cases::Generated(
          Box::new(|| tree(GenCfg::positional()).prop_map(|t| TreeCase { spec: Spec::Cached(Box::new(t)) }).boxed()),
          150_000,
          2_000_000,
        ),
      },
      Leg {
        name: "ascii trees",
        source: Cases::Generated(
          Box::new(|| tree(GenCfg::positional()).prop_map(|spec| TreeCase { spec }).boxed()),
          80_000,
          2_000_000,
        ),
      },
    ]
  }
  fn check(&self, case: &TreeCase) -> CheckResult {
    let spec = &case.spec;
    let want = model_text(spec);
    let got = lib_or_known!(spec, "source()", build(spec).source().to_string());
    if got != want {
      return Err(format!("source() = {got:?} differs from the reference text {want:?}"));
    }
    for columns in [true, false] {
      // one object, streamed cold, then warm, then after map(): every history must reassemble
      let mut obj = build(spec);
      // a second object goes through the other order: map() on the cold object first, then two streams (only where an
      // object keeps state between calls)
      let stateful = spec.has_cached() || spec.any(&|s| matches!(s, Spec::Replace { .. }));
      for round in ["cold", "warm", "after map()", "after map() on a cold object", "once more after map() on a cold object"] {
        if round == "after map() on a cold object" {
          if !stateful {
            break;
          }
          obj = build(spec);
        }
        if round == "after map()" || round == "after map() on a cold object" {
          lib_or_known!(spec, "map()", obj.map(&opts(columns, false)));
        }
        let st = lib_or_known!(spec, "stream_chunks", stream(&*obj, &opts(columns, false)));
        if let Some(e) = st.wf_errors.iter().find(|e| e.contains("outlived")) {
          return Err(format!("columns={columns} {round}: {e}"));
        }
        if let Some(k) = st.chunks.iter().position(|c| c.text.is_none()) {
          return Err(format!(
            "columns={columns} {round}: chunk #{k} at ({},{}) was delivered to an outside caller without text",
            st.chunks[k].line, st.chunks[k].col
          ));
        }
        let text = st.text();
        if text != got {
          if round != "cold" && w2_cached_above(spec) && !crate::known::strict() {
            // known finding W2 (second signature), see known_findings.json
            return Ok(CaseInfo { excluded_known: true, ..Default::default() });
          }
          return Err(format!(
            "columns={columns} {round}: chunks reassemble to {text:?}, source() is {got:?}"
          ));
        }
        // "the string returned by source()" of this very object, asked after the stream (and after whatever the
        // stream or map() left behind in it: sorted replacement order, decoded text, caches)
        let again = lib_or_known!(spec, "source()", obj.source().to_string());
        if again != text {
          return Err(format!(
            "columns={columns} {round}: source() asked on the same object after the stream returns {again:?}, the chunks reassembled to {text:?}"
          ));
        }
      }
    }
    // an object whose construction was observed (source() and size() asked after every mutating call of every
    // ReplaceSource / ConcatSource of the tree): its chunks reassemble to the string its own source() returns, which is
    // the reference text
    let observed = spec.any(&|s| matches!(s, Spec::Replace { repls, .. } if !repls.is_empty()) || matches!(s, Spec::Concat { children, .. } if children.len() >= 2));
    if observed {
      let obj = lib_or_known!(spec, "observed construction", crate::build::build_observed(spec, &mut |s| {
        let _ = s.source().len();
        let _ = s.size();
      }));
      for columns in [true, false] {
        let st = lib_or_known!(spec, "stream_chunks", stream(&*obj, &opts(columns, false)));
        let text = st.text();
        let own = lib_or_known!(spec, "source()", obj.source().to_string());
        if text != own || own != want {
          return Err(format!(
            "columns={columns} (object observed while under construction): chunks reassemble to {text:?}, its source() is {own:?}, the reference text {want:?}"
          ));
        }
      }
    }
    let mut info = CaseInfo::nt(reslices(spec));
    if observed {
      info.classes.push("also built with observers between the mutating calls");
    }
    tree_classes(spec, &mut info);
    if !got.is_ascii() {
      info.classes.push("multi-byte text");
    }
    if spec.any(&|s| matches!(s, Spec::Sms{map,..}|Spec::SmsInner{map,..} if map.segs.iter().any(|g| g.orig.is_some_and(|o| o.src as usize >= map.sources.len())))) {
      info.classes.push("wild map (source index outside table)");
    }
    Ok(info)
  }
}
