//! C04 Mappings point to where the text really came from

use std::collections::{BTreeMap, BTreeSet};

use proptest::strategy::Strategy;

use crate::build::build;
use crate::gen::{tree, GenCfg};
use crate::model::prov::{prov, Prov};
use crate::observe::{attr_from_map, decode_map, guard, opts, positions};
use crate::props::common::*;
use crate::runner::*;
use crate::spec::{model_text, Spec};

pub struct C04;

fn orig_files(s: &Spec) -> Vec<(String, String)> {
  let mut out = vec![];
  s.walk(
    &mut |n, _| {
      if let Spec::Orig { text, name } = n {
        out.push((name.clone(), text.clone()));
      }
    },
    0,
  );
  out
}

impl Prop for C04 {
  type Case = TreeCase;
  const ID: &'static str = "C04";
  fn rule(&self) -> String {
    "ASCII trees over {Raw*, Original, Concat, Replace, Cached, Box} (gen::tree(provenance): no CachedSource \
     beneath a ReplaceSource, distinct file names for distinct contents); map(columns=true) and, for trees without \
     ReplaceSource, map(columns=false) are checked per output byte against an independent byte-provenance model. \
     Non-trivial: >=1 surviving OriginalSource byte downstream of a replacement or sharing a line with text of \
     another child; distinct by hash of the case JSON".into()
  }
  fn legs(&self, _tier: Tier) -> Vec<Leg<TreeCase>> {
    vec![
      Leg {
        name: "provenance trees",
        source: Cases::Generated(
          Box::new(|| tree(GenCfg::provenance()).prop_map(|spec| TreeCase { spec }).boxed()),
          1_000_000,
          12_000_000,
        ),
      },
      Leg {
        name: "larger provenance trees (depth<=4, <=6 children, <=30 tokens)",
        source: Cases::Generated(
          Box::new(|| tree(GenCfg { depth: 4, max_children: 6, max_tokens: 30, ..GenCfg::provenance() }).prop_map(|spec| TreeCase { spec }).boxed()),
          60_000,
          800_000,
        ),
      },
    ]
  }
  fn stages(&self, ctx: &Ctx) -> Vec<Stage> {
    if ctx.tier == Tier::Thorough {
      crate::fuzz::campaigns("C04", &["tree_c04"], ctx)
    } else {
      vec![]
    }
  }
  fn check(&self, case: &TreeCase) -> CheckResult {
    let spec = &case.spec;
    if spec.has_sms() || spec.cached_under_replace() {
      return Err("harness: case outside C04's quantifier".into());
    }
    let text = model_text(spec);
    let pv = prov(spec);
    assert_eq!(pv.len(), text.len());
    let (pos, _) = positions(&text);
    let check_map = |map: &Option<rspack_sources::SourceMap>| -> Result<(), String> {
    let at = attr_from_map(map.as_ref(), &text, true)?;
    let ms = map.as_ref().map(|m| m.mappings().to_string());
    if let Some(mp) = map {
      let d = decode_map(mp)?;
      // (a) every mapped segment that starts on an Orig byte names exactly that byte
      for s in &d.segs {
        let Ok(i) = pos.binary_search(&(s.line, s.col)) else {
          return Err(format!("segment {}:{} does not start on a character of {text:?}; mappings={ms:?}", s.line, s.col));
        };
        if let (Some(o), Prov::Orig { file, line, col, .. }) = (&s.orig, &pv[i]) {
          let f = d.sources.get(o.src as usize).cloned().unwrap_or_default();
          if &f != file || o.line != *line || o.col != *col {
            return Err(format!(
              "(a) segment at {}:{} of {text:?} claims {f}:{}:{} but that byte was copied from {file}:{line}:{col}; mappings={ms:?}",
              s.line, s.col, o.line, o.col
            ));
          }
        }
      }
      // (e) sources / sourcesContent
      let files = orig_files(spec);
      let mut seen = BTreeSet::new();
      for (i, sname) in mp.sources().iter().enumerate() {
        if !seen.insert(sname.clone()) {
          return Err(format!("(e) source {sname:?} listed twice: {:?}", mp.sources()));
        }
        match files.iter().find(|f| &f.0 == sname) {
          None => return Err(format!("(e) unknown source {sname:?} in {:?}", mp.sources())),
          Some(f) => {
            let c = mp.get_source_content(i).unwrap_or("");
            if c != f.1 {
              return Err(format!("(e) sourcesContent of {sname:?} is {c:?}, the file holds {:?}", f.1));
            }
          }
        }
      }
      for p in &pv {
        if let Prov::Orig { file, lone_nl: false, .. } = p {
          if !mp.sources().iter().any(|s| s == file) {
            return Err(format!("(e) file {file:?} has a surviving byte but is not listed in {:?}", mp.sources()));
          }
        }
      }
    }
    for i in 0..text.len() {
      match (&pv[i], &at[i]) {
        (Prov::Raw, Some(a)) => {
          return Err(format!("(c) raw byte {i} ({}:{}) of {text:?} is mapped to {a:?}; mappings={ms:?}", pos[i].0, pos[i].1))
        }
        (Prov::Orig { lone_nl: true, .. }, _) => {}
        (Prov::Orig { file, line, col, tok_start, .. }, a) => match a {
          None => {
            return Err(format!(
              "(b) byte {i} ({}:{}) of {text:?}, copied from {file}:{line}:{col}, is unmapped; mappings={ms:?}",
              pos[i].0, pos[i].1
            ))
          }
          Some((f, _, l, c, _)) => {
            if f != file || l != line || c > col {
              return Err(format!(
                "(b) byte {i} ({}:{}) of {text:?}, copied from {file}:{line}:{col}, resolves to {f}:{l}:{c}; mappings={ms:?}",
                pos[i].0, pos[i].1
              ));
            }
            if *tok_start && c != col {
              return Err(format!(
                "(d) byte {i} ({}:{}) of {text:?} begins a statement at {file}:{line}:{col} but resolves to column {c}; mappings={ms:?}",
                pos[i].0, pos[i].1
              ));
            }
          }
        },
        _ => {}
      }
    }
    Ok(())
    };
    // (f) columns=false without ReplaceSource
    let check_lines = |mapl: &Option<rspack_sources::SourceMap>| -> Result<(), String> {
      let al = attr_from_map(mapl.as_ref(), &text, false)?;
      let mut first: BTreeMap<u32, Option<(String, u32)>> = BTreeMap::new();
      for i in 0..text.len() {
        let e = first.entry(pos[i].0).or_insert(None);
        if e.is_none() {
          if let Prov::Orig { file, line, .. } = &pv[i] {
            *e = Some((file.clone(), *line));
          }
        }
      }
      for i in 0..text.len() {
        let want = first[&pos[i].0].clone();
        let got = al[i].clone().map(|a| (a.0, a.2));
        if want != got {
          return Err(format!(
            "(f) columns=false: output line {} of {text:?} resolves to {got:?}, the first original text on it is {want:?}; mappings={:?}",
            pos[i].0,
            mapl.as_ref().map(|m| m.mappings().to_string())
          ));
        }
      }
      Ok(())
    };
    let lines_claimed = !spec.has_replace();
    let map = guard(|| build(spec).map(&opts(true, false))).map_err(|p| format!("map(): {p}"))?;
    check_map(&map)?;
    if lines_claimed {
      let mapl = guard(|| build(spec).map(&opts(false, false))).map_err(|p| format!("map(columns=false): {p}"))?;
      check_lines(&mapl)?;
    }
    // the same statements hold for whatever path produced the map: one object asked repeatedly, with both column
    // settings in either order (the later answers are assembled from the caches of its CachedSources, which must
    // keep the two settings apart)
    if spec.has_cached() {
      for order in [[true, true, false, true, false], [false, true, false, false, true]] {
        let obj = build(spec);
        for (k, columns) in order.into_iter().enumerate() {
          if !columns && !lines_claimed {
            continue;
          }
          let m = guard(|| obj.map(&opts(columns, false)))
            .map_err(|p| format!("map(columns={columns}) (call {k} of {order:?} on one object): {p}"))?;
          if columns { check_map(&m) } else { check_lines(&m) }
            .map_err(|e| format!("call {k} of the map(columns) sequence {order:?} on one object: {e}"))?;
        }
      }
    }
    let mut nt = false;
    // non-trivial: a surviving Orig byte after a Repl byte, or sharing a line with a byte of another file / raw
    {
      let mut seen_repl = false;
      let mut line_kinds: BTreeMap<u32, BTreeSet<String>> = BTreeMap::new();
      for i in 0..text.len() {
        match &pv[i] {
          Prov::Repl => seen_repl = true,
          Prov::Orig { file, .. } => {
            if seen_repl {
              nt = true;
            }
            line_kinds.entry(pos[i].0).or_default().insert(file.clone());
          }
          Prov::Raw => {
            line_kinds.entry(pos[i].0).or_default().insert("<raw>".into());
          }
        }
      }
      nt |= line_kinds.values().any(|k| k.len() >= 2 && k.iter().any(|x| x != "<raw>"));
    }
    let mut info = CaseInfo::nt(nt);
    tree_classes(spec, &mut info);
    Ok(info.class(pv.iter().any(|p| matches!(p, Prov::Orig { tok_start: true, .. })), "surviving statement start"))
  }
}
