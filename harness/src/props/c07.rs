//! C07 All content views of a source agree

use std::io::{self, Write};

use proptest::prelude::*;
use rspack_sources::Source;
use serde::{Deserialize, Serialize};

use crate::build::build;
use crate::gen::{tree, GenCfg};
use crate::observe::guard;
use crate::runner::*;
use crate::spec::{model_bytes, model_text, Spec};

pub struct C07;

#[derive(Clone, Debug, Serialize, Deserialize)]
pub struct Case {
  pub spec: Spec,
  /// the failing writer accepts at most this many bytes per call (0 = unlimited)
  pub step: usize,
}

const MARKER: &str = "VERIF-WRITER-FAULT";

/// accepts `budget` bytes in total, at most `step` per call, then fails
struct FaultyWriter {
  budget: usize,
  step: usize,
  got: Vec<u8>,
  calls_after_error: usize,
  failed: bool,
}

impl Write for FaultyWriter {
  fn write(&mut self, buf: &[u8]) -> io::Result<usize> {
    if self.failed {
      self.calls_after_error += 1;
    }
    if buf.is_empty() {
      return Ok(0);
    }
    if self.budget == 0 {
      self.failed = true;
      return Err(io::Error::new(io::ErrorKind::Other, MARKER));
    }
    let mut n = buf.len().min(self.budget);
    if self.step > 0 {
      n = n.min(self.step);
    }
    self.got.extend_from_slice(&buf[..n]);
    self.budget -= n;
    Ok(n)
  }
  fn flush(&mut self) -> io::Result<()> {
    Ok(())
  }
}

fn has_binary(s: &Spec) -> bool {
  s.any(&|n| matches!(n, Spec::RawBuf(b) | Spec::RawBytes(b) if std::str::from_utf8(b).is_err()))
}

/// per node: text and buffer of a ConcatSource are the in-order concatenation of its children's
fn check_concat_nodes(spec: &Spec) -> Result<(), String> {
  let mut err = None;
  spec.walk(
    &mut |n, _| {
      if err.is_some() {
        return;
      }
      // RawSource knows which of its two representations it holds
      match n {
        Spec::Raw(t) => {
          let r = rspack_sources::RawSource::from(t.clone());
          if r.is_buffer() || rspack_sources::RawSource::from(t.as_str()).is_buffer() {
            err = Some(format!("RawSource built from the string {t:?} says is_buffer()"));
          }
          if r.source() != t.as_str() || r.buffer() != t.as_bytes() {
            err = Some(format!("typed RawSource from the string {t:?}: source() / buffer() differ from it"));
          }
        }
        Spec::RawBytes(b) => {
          let r = rspack_sources::RawSource::from(b.clone());
          if !r.is_buffer() || !rspack_sources::RawSource::from(b.as_slice()).is_buffer() {
            err = Some(format!("RawSource built from the bytes {b:?} denies is_buffer()"));
          }
          if r.buffer() != b.as_slice() || r.source() != String::from_utf8_lossy(b) {
            err = Some(format!("typed RawSource from the bytes {b:?}: buffer() / source() differ from them / their lossy decoding"));
          }
        }
        _ => {}
      }
      if let Spec::Concat { children, .. } = n {
        let c = build(n);
        let (mut t, mut b) = (String::new(), Vec::new());
        for ch in children {
          let cs = build(ch);
          t.push_str(&cs.source());
          b.extend_from_slice(&cs.buffer());
        }
        if c.source() != t {
          err = Some(format!("ConcatSource source() {:?} is not the concatenation of its children's {t:?}", c.source()));
        } else if c.buffer() != b {
          err = Some(format!("ConcatSource buffer() {:?} is not the concatenation of its children's {b:?}", c.buffer()));
        }
      }
    },
    0,
  );
  err.map_or(Ok(()), Err)
}

impl Prop for C07 {
  type Case = Case;
  const ID: &'static str = "C07";
  fn rule(&self) -> String {
    "trees from gen::tree(wild): all source types, 1-4 byte UTF-8 text, binary leaves with invalid UTF-8 (lone \
     continuation bytes, truncated sequences, overlongs, surrogates); all five views compared with each other and \
     with the reference text/bytes, every ConcatSource node compared with its children; each tree is additionally built through a history mutate, observe, mutate, observe (views read during construction); fault sequence: a writer \
     that accepts k bytes in total (short writes of <= step bytes) and then fails, for EVERY k in 0..=len+1. \
     Non-trivial: tree with >=2 leaves including a binary or multi-byte one, and len>=2 (so a fault strictly inside \
     exists); distinct by hash of the case JSON".into()
  }
  fn legs(&self, _tier: Tier) -> Vec<Leg<Case>> {
    vec![Leg {
      name: "trees x all fault points",
      source: Cases::Generated(
        Box::new(|| (tree(GenCfg::wild()), 0usize..4).prop_map(|(spec, step)| Case { spec, step }).boxed()),
        300_000,
        4_000_000,
      ),
    }]
  }
  fn extra_coverage(&self, _t: Tier) -> std::collections::BTreeMap<String, serde_json::Value> {
    [("fault_points_exhaustive_per_case".to_string(), serde_json::Value::Bool(true))].into_iter().collect()
  }
  fn check(&self, case: &Case) -> CheckResult {
    let spec = &case.spec;
    let want_text = model_text(spec);
    let want_bytes = model_bytes(spec);
    let faults = guard(|| -> Result<usize, String> {
      let src = build(spec);
      let text = src.source().to_string();
      if text != want_text {
        return Err(format!("source() {text:?} differs from the reference text {want_text:?}"));
      }
      let rope = src.rope().to_string();
      if rope != text {
        return Err(format!("rope() renders to {rope:?}, source() is {text:?}"));
      }
      // the same views on a second object on which map() and the chunk stream were asked FIRST (a lazily
      // decoded leaf must decode the same way whichever observer reaches it first)
      {
        let late = build(spec);
        // (map() / streaming of a non-ASCII tree may run into known finding W2; that is C17's business, here
        // the calls only serve to touch the leaves first)
        let touched = crate::props::common::lib(spec, "map() / stream before the text views", || {
          let _ = late.map(&crate::observe::opts(true, false));
          let _ = crate::observe::stream(&*late, &crate::observe::opts(false, false));
        })?;
        let (lt, lr, lb, ls) = (late.source().to_string(), late.rope().to_string(), late.buffer().to_vec(), late.size());
        if matches!(touched, crate::props::common::Lib::Known) {
          // nothing to compare after a tolerated panic half-way
        } else if lt != want_text || lr != want_text || lb != want_bytes || ls != want_bytes.len() {
          return Err(format!(
            "after map() and a chunk stream were called first, source()={lt:?} rope()={lr:?} buffer()={lb:?} size()={ls}; the reference text is {want_text:?} ({} bytes)",
            want_bytes.len()
          ));
        }
      }
      // the rope a source hands out is a faithful rope of that text: every observer agrees (C16's model)
      crate::props::c16::check_unary(&src.rope(), &text).map_err(|e| format!("rope() of the source: {e}"))?;
      let buf = src.buffer().to_vec();
      if buf != want_bytes {
        return Err(format!("buffer() {buf:?} differs from the reference bytes {want_bytes:?}"));
      }
      if src.size() != buf.len() {
        return Err(format!("size() {} != buffer().len() {}", src.size(), buf.len()));
      }
      let mut w = vec![];
      src.to_writer(&mut w).map_err(|e| format!("to_writer into a Vec failed: {e}"))?;
      if w != buf {
        return Err(format!("to_writer wrote {w:?}, buffer() is {buf:?}"));
      }
      if !has_binary(spec) && buf != text.as_bytes() {
        return Err("all leaves are valid UTF-8 but buffer() is not the bytes of source()".into());
      }
      // a second round on the same object (lazy decode caches are now filled)
      if src.source() != text || src.buffer() != buf || src.size() != buf.len() || src.rope().to_string() != text {
        return Err("views changed on the second call".into());
      }
      check_concat_nodes(spec)?;
      // the same tree built through a history mutate, observe, mutate, observe, ...:
      // views read while a ReplaceSource / ConcatSource was under construction must not stick
      let mut n = case.step;
      let observed = crate::build::build_observed(spec, &mut |s| {
        n += 1;
        match n % 5 {
          0 => drop(s.size()),
          1 => drop(s.source()),
          2 => drop(s.buffer()),
          3 => drop(s.rope().to_string()),
          _ => {
            let mut v = vec![];
            let _ = s.to_writer(&mut v);
          }
        }
      });
      if observed.source() != text || observed.buffer() != buf || observed.size() != buf.len() || observed.rope().to_string() != text {
        return Err(format!(
          "a tree built with observers called between its mutating calls answers source()={:?} size()={} buffer().len()={} rope()={:?}; expected text {text:?} ({} bytes)",
          observed.source(), observed.size(), observed.buffer().len(), observed.rope().to_string(), buf.len()
        ));
      }
      let mut w2 = vec![];
      observed.to_writer(&mut w2).map_err(|e| format!("to_writer into a Vec failed: {e}"))?;
      if w2 != buf {
        return Err("a tree built with observers between its mutating calls writes different bytes".into());
      }
      // every fault point
      for k in 0..=buf.len() + 1 {
        let mut fw = FaultyWriter { budget: k, step: case.step, got: vec![], calls_after_error: 0, failed: false };
        let r = src.to_writer(&mut fw);
        if !buf.starts_with(&fw.got) {
          return Err(format!("writer failing after {k} bytes received {:?}, not a prefix of buffer() {buf:?}", fw.got));
        }
        match r {
          Ok(()) => {
            if k < buf.len() {
              return Err(format!("writer failing after {k} of {} bytes: to_writer returned Ok", buf.len()));
            }
            if fw.got != buf {
              return Err(format!("to_writer returned Ok but wrote {:?} instead of {buf:?}", fw.got));
            }
          }
          Err(e) => {
            if k >= buf.len() {
              return Err(format!("writer with budget {k} >= {} failed: {e}", buf.len()));
            }
            if !e.to_string().contains(MARKER) {
              return Err(format!("writer failing after {k} bytes: to_writer returned a different error: {e}"));
            }
            if fw.calls_after_error > 0 {
              return Err(format!("writer failing after {k} bytes was written to again after it had returned its error"));
            }
          }
        }
      }
      Ok(buf.len() + 2)
    });
    let _faults = match faults {
      Err(p) => return Err(p),
      Ok(Err(e)) => return Err(e),
      Ok(Ok(n)) => n,
    };
    let leaves = spec.count(&|s| s.is_leaf());
    let nt = leaves >= 2 && (has_binary(spec) || !want_text.is_ascii()) && want_bytes.len() >= 2;
    Ok(
      CaseInfo::nt(nt)
        .class(has_binary(spec), "binary leaf with invalid UTF-8")
        .class(spec.any(&|s| matches!(s, Spec::Replace{inner,..} if has_binary(inner))), "ReplaceSource over a binary leaf")
        .class(spec.any(&|s| matches!(s, Spec::Concat{children,..} if children.len()==1)), "single-child ConcatSource")
        .class(spec.any(&|s| matches!(s, Spec::Concat{children,..} if children.is_empty())), "empty ConcatSource")
        .class(case.step > 0, "short writes"),
    )
  }
}
