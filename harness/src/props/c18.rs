//! C18 Concurrent readers get sequential answers; cached maps are never replaced

use std::collections::BTreeMap;
use std::sync::{Arc, Mutex};

use proptest::collection::vec;
use proptest::prelude::*;
use rspack_sources::{BoxSource, Rope, Source};
use serde::{Deserialize, Serialize};

use crate::build::build;
use crate::gen::{concretize_repls, repls_for, text, GenCfg};
use crate::observe::{attr_from_map, guard, opts, AttrFull, Chunk};
use crate::props::c05::hash_of;
use crate::runner::*;
use crate::sched::{install_hook, next_schedule, remove_hook, Sched};
use crate::spec::{model_text, Spec};

pub struct C18;

#[derive(Clone, Copy, Debug, Serialize, Deserialize, PartialEq, Eq)]
pub enum Op {
  Source,
  /// rope() rendered
  Rope,
  /// buffer() copied
  Buffer,
  Size,
  Map(bool),
  Stream(bool),
  Hash,
  /// clone (of the concrete type) taken while others run, then source() of the clone
  CloneSource,
  CloneMap(bool),
  /// clone of the concrete type (when the tree's root is a ReplaceSource), one more insertion on the clone - the thread's
  /// own value, which it may mutate - then source() of the clone twice; other roots: clone, source() twice
  CloneMutate,
  /// == with a fresh twin
  EqTwin,
  /// equality with ONE second, equal tree that all threads share (false: tree == other, true: other == tree)
  EqShared(bool),
  /// equality with ONE second tree that all threads share and that differs from the tree by one edit
  /// (`Program::near`; false: tree == near, true: near == tree)
  #[serde(alias = "EqNear")]
  EqNear(bool),
}

#[derive(Clone, Debug, Serialize, Deserialize)]
pub struct Program {
  pub tree: Spec,
  pub threads: Vec<Vec<Op>>,
  /// Some(k): the shared tree is built through `build_stale` (observer k after every mutating call of a
  /// ReplaceSource but the last), so its ReplaceSources have been observed, mutated again and only then shared
  #[serde(default)]
  pub warm: Option<u8>,
  /// selects the edit (edit::all_edits) that makes the operand of `EqNear`
  #[serde(default)]
  pub near: u16,
}

/// the tree after one edit (the tree itself if it offers none)
fn near_spec(p: &Program) -> Spec {
  crate::edit::pick_edit(crate::edit::all_edits(&p.tree, true), p.near).map(|e| e.result).unwrap_or_else(|| p.tree.clone())
}

fn build_shared(p: &Program) -> BoxSource {
  match p.warm {
    None => build(&p.tree),
    Some(k) => crate::build::build_stale(&p.tree, &mut |s| match k % 4 {
      0 => {
        let _ = s.source();
      }
      1 => {
        let _ = s.size();
      }
      2 => {
        let mut st = std::collections::hash_map::DefaultHasher::new();
        s.update_hash(&mut st);
      }
      _ => {
        let _ = s.map(&opts(true, false));
      }
    }),
  }
}

#[derive(Clone, Debug, Serialize, Deserialize)]
pub enum Mode {
  /// one schedule: a choice at every decision point with more than one option (missing entries = 0)
  Schedule(Vec<u8>),
  /// every schedule with at most this many preemptions, at most `cap` executions
  Exhaustive { max_preemptions: u32, cap: u32 },
  /// no scheduler: the threads really run in parallel, released together by a barrier, `rounds`
  /// times on a fresh tree each time.  Reaches windows that have no schedule point (code that
  /// bypasses the instrumented accesses); a failure is a real failure, silence proves little.
  Stress { rounds: u32 },
}

#[derive(Clone, Debug, Serialize, Deserialize)]
pub struct Case {
  pub program: Program,
  pub mode: Mode,
}

/// what an operation answered, in comparable form
#[derive(Clone, Debug, PartialEq)]
pub enum Answer {
  Text(String),
  Bytes(Vec<u8>),
  Size(usize),
  /// per-byte attribution through the returned map
  /// attribution of every position; whether there was a map at all (None where known finding K1 makes that depend on
  /// the tree's pass-through SourceMapSource leaves)
  MapAttr(Vec<AttrFull>, Option<bool>),
  /// text, end info, per-byte attribution (columns=true) or per-line attribution (columns=false)
  Stream(String, (u32, u32), Vec<AttrFull>, BTreeMap<u32, (String, Option<String>, u32)>),
  Hash(u64),
  Eq(bool),
  Panic(String),
}

// --------------------------------------------------------------- generation

fn leaf(cfg: GenCfg) -> BoxedStrategy<Spec> {
  let t = text(true, 6);
  prop_oneof![
    2 => t.clone().prop_map(Spec::Raw),
    2 => t.clone().prop_map(|s| Spec::RawBuf(s.into_bytes())),
    1 => t.clone().prop_map(|s| Spec::RawBytes(s.into_bytes())),
    // binary leaves whose lazily decoded text is not their bytes (invalid UTF-8): whichever call decodes first fills
    // the shared cell for everybody
    1 => crate::gen::bytes(GenCfg { invalid_utf8: true, max_tokens: 4, ..cfg }).prop_map(Spec::RawBuf),
    1 => crate::gen::bytes(GenCfg { invalid_utf8: true, max_tokens: 4, ..cfg }).prop_map(Spec::RawBytes),
    3 => (t.clone(), 0u8..3u8).prop_map(|(text, k)| Spec::Orig { text, name: format!("f{k}.js") }),
    3 => t.clone().prop_map(|text| Spec::Custom { text }),
  ]
  .prop_map(move |s| {
    let _ = cfg;
    s
  })
  .boxed()
}

/// trees built from the types with shared lazily-filled state: ReplaceSource
/// (unsorted on entry), CachedSource (cold), RawSource/RawBufferSource
/// (undecoded), composites of them, and a user-defined child with schedule points
fn shared_tree() -> BoxedStrategy<Spec> {
  let cfg = GenCfg { max_tokens: 6, ..GenCfg::positional() };
  leaf(cfg)
    .prop_recursive(3, 8, 3, move |inner| {
      prop_oneof![
        2 => (0u8..3u8, vec(inner.clone(), 1..=3)).prop_map(|(how, children)| Spec::Concat { how, children }),
        4 => (inner.clone(), repls_for(cfg, 3)).prop_map(move |(i, (pool, abs))| {
          let t = model_text(&i);
          let repls = concretize_repls(&t, &pool, &abs, false);
          Spec::Replace { inner: Box::new(i), repls }
        }),
        4 => inner.clone().prop_map(|i| Spec::Cached(Box::new(i))),
      ]
    })
    .prop_map(move |s| crate::gen::normalize(s, cfg))
    .boxed()
}

fn op() -> BoxedStrategy<Op> {
  prop_oneof![
    2 => Just(Op::Source),
    1 => Just(Op::Rope),
    1 => Just(Op::Buffer),
    1 => Just(Op::Size),
    3 => any::<bool>().prop_map(Op::Map),
    3 => any::<bool>().prop_map(Op::Stream),
    2 => Just(Op::Hash),
    2 => Just(Op::CloneSource),
    1 => any::<bool>().prop_map(Op::CloneMap),
    2 => Just(Op::CloneMutate),
    1 => Just(Op::EqTwin),
    2 => any::<bool>().prop_map(Op::EqShared),
    2 => any::<bool>().prop_map(Op::EqNear),
  ]
  .boxed()
}

fn program() -> BoxedStrategy<Program> {
  (shared_tree(), vec(vec(op(), 1..=3), 2..=3), prop_oneof![2 => Just(None), 1 => (0u8..4u8).prop_map(Some)], any::<u16>())
    .prop_map(|(tree, threads, warm, near)| Program { tree, threads, warm, near })
    .boxed()
}

pub fn random_case() -> BoxedStrategy<Case> {
  (program(), vec(0u8..3u8, 0..=40), 0u8..4).prop_map(|(program, mut schedule, dense)| {
    // sparse schedules: mostly "keep running", a few switches (bounded preemptions)
    if dense > 0 {
      for (i, s) in schedule.iter_mut().enumerate() {
        if (i as u8).wrapping_mul(7).wrapping_add(dense) % 4 != 0 {
          *s = 0;
        }
      }
    }
    Case { program, mode: Mode::Schedule(schedule) }
  })
  .boxed()
}

fn stress_case() -> BoxedStrategy<Case> {
  program().prop_map(|program| Case { program, mode: Mode::Stress { rounds: 25 } }).boxed()
}

/// Run the program once with really parallel threads (no hooks), released by a barrier.
fn execute_parallel(p: &Program) -> Result<Vec<Vec<Answer>>, String> {
  let n = p.threads.len();
  let ktids: Arc<Mutex<Vec<u32>>> = Arc::new(Mutex::new(vec![0; n]));
  let tree: BoxSource = build_shared(p);
  let text = Arc::new(model_text(&p.tree));
  let answers: Arc<Mutex<Vec<Vec<Answer>>>> = Arc::new(Mutex::new(vec![vec![]; n]));
  let barrier = Arc::new(std::sync::Barrier::new(n));
  let (done_tx, done_rx) = std::sync::mpsc::channel::<usize>();
  // a second, equal tree shared by all threads (operand of EqShared)
  let other: BoxSource = build_shared(p);
  let near: BoxSource = build(&near_spec(p));
  POOL.with(|pool| {
    let mut pool = pool.borrow_mut();
    if pool.is_none() {
      *pool = Some(Pool::new(3));
    }
    let pool = pool.as_ref().unwrap();
    for (tid, ops) in p.threads.iter().enumerate() {
      let (tree, other, near, text, answers, ops, spec, done_tx, barrier, ktids) =
        (tree.clone(), other.clone(), near.clone(), text.clone(), answers.clone(), ops.clone(), p.tree.clone(), done_tx.clone(), barrier.clone(), ktids.clone());
      let job: Job = Box::new(move || {
        let mut keep: Vec<Retained> = vec![];
        ktids.lock().unwrap()[tid] = std::fs::read_link("/proc/thread-self")
          .ok()
          .and_then(|p| p.file_name().map(|n| n.to_string_lossy().to_string()))
          .and_then(|s| s.parse::<u32>().ok())
          .unwrap_or(0);
        barrier.wait();
        let mut mine = vec![];
        for op in ops {
          mine.push(run_op(&tree, &other, &near, &spec, &text, op, &mut keep));
        }
        for k in &keep {
          if let Err(e) = k.verify() {
            mine.push(Answer::Panic(e));
          }
        }
        answers.lock().unwrap()[tid] = mine;
        drop(keep);
        drop(tree);
        let _ = done_tx.send(tid);
      });
      pool.workers[tid].send(job).expect("worker pool");
    }
  });
  // wait for the threads; if for ten seconds on end every unfinished one sleeps in the kernel and none
  // finishes, they wait for each other: a real deadlock (the workers are abandoned with their pool)
  let mut done = vec![false; n];
  let mut asleep_polls = 0u32;
  while done.iter().any(|d| !d) {
    match done_rx.recv_timeout(std::time::Duration::from_millis(100)) {
      Ok(t) => {
        done[t] = true;
        asleep_polls = 0;
      }
      Err(std::sync::mpsc::RecvTimeoutError::Disconnected) => break,
      Err(std::sync::mpsc::RecvTimeoutError::Timeout) => {
        let tids = ktids.lock().unwrap().clone();
        let all_asleep = (0..n).filter(|t| !done[*t]).all(|t| {
          tids[t] != 0
            && std::fs::read_to_string(format!("/proc/self/task/{}/stat", tids[t]))
              .ok()
              .and_then(|s| s.rsplit_once(") ").map(|(_, rest)| rest.starts_with('S')))
              .unwrap_or(false)
        });
        asleep_polls = if all_asleep { asleep_polls + 1 } else { 0 };
        if asleep_polls >= 100 {
          POOL.with(|pool| {
            if let Some(p) = pool.borrow_mut().take() {
              std::mem::forget(p);
            }
          });
          let stuck: Vec<usize> = (0..n).filter(|t| !done[*t]).collect();
          return Err(format!("deadlock: threads {stuck:?} have been asleep in the kernel for ten seconds and none of them finishes"));
        }
      }
    }
  }
  let out = answers.lock().unwrap().clone();
  Ok(out)
}

fn exhaustive_case() -> BoxedStrategy<Case> {
  program().prop_map(|program| Case { program, mode: Mode::Exhaustive { max_preemptions: 2, cap: 6000 } }).boxed()
}

// ---------------------------------------------------------------- execution

/// chunks etc. a streaming thread keeps *borrowed* until all threads have finished
struct Retained<'a> {
  chunks: Vec<(Option<Rope<'a>>, String)>,
  sources: Vec<(std::borrow::Cow<'a, str>, Option<Rope<'a>>, String, Option<String>)>,
  names: Vec<(std::borrow::Cow<'a, str>, String)>,
}

impl Retained<'_> {
  fn verify(&self) -> Result<(), String> {
    for (r, copy) in &self.chunks {
      if let Some(r) = r {
        if r.to_string() != *copy {
          return Err(format!("a chunk kept from an earlier stream now reads {:?}, it was {copy:?}", r.to_string()));
        }
      }
    }
    for (n, c, ncopy, ccopy) in &self.sources {
      if n.as_ref() != ncopy || c.as_ref().map(|r| r.to_string()) != *ccopy {
        return Err(format!("a source name / content kept from an earlier stream changed (was {ncopy:?})"));
      }
    }
    for (n, copy) in &self.names {
      if n.as_ref() != copy {
        return Err(format!("a name kept from an earlier stream now reads {:?}, it was {copy:?}", n.as_ref()));
      }
    }
    Ok(())
  }
}

fn stream_answer<'a>(src: &'a dyn Source, columns: bool, keep: &mut Vec<Retained<'a>>) -> Answer {
  use std::cell::RefCell;
  let chunks: RefCell<Vec<(Option<Rope<'a>>, rspack_sources::Mapping)>> = RefCell::new(vec![]);
  let sources: RefCell<Vec<(u32, std::borrow::Cow<'a, str>, Option<Rope<'a>>)>> = RefCell::new(vec![]);
  let names: RefCell<Vec<(u32, std::borrow::Cow<'a, str>)>> = RefCell::new(vec![]);
  let info = src.stream_chunks(
    &opts(columns, false),
    &mut |c, m| chunks.borrow_mut().push((c, m)),
    &mut |i, s, c| sources.borrow_mut().push((i, s, c)),
    &mut |i, n| names.borrow_mut().push((i, n)),
  );
  let (chunks, sources, names) = (chunks.into_inner(), sources.into_inner(), names.into_inner());
  let st = crate::observe::Stream {
    chunks: chunks
      .iter()
      .map(|(c, m)| Chunk {
        text: c.as_ref().map(|r| r.to_string()),
        line: m.generated_line,
        col: m.generated_column,
        orig: m.original.as_ref().map(|o| crate::spec::Orig { src: o.source_index, line: o.original_line, col: o.original_column, name: o.name_index }),
      })
      .collect(),
    sources: sources.iter().map(|(i, s, c)| (*i, s.to_string(), c.as_ref().map(|r| r.to_string()))).collect(),
    names: names.iter().map(|(i, n)| (*i, n.to_string())).collect(),
    info: (info.generated_line, info.generated_column),
    wf_errors: vec![],
  };
  keep.push(Retained {
    chunks: chunks.into_iter().zip(&st.chunks).map(|((c, _), k)| (c, k.text.clone().unwrap_or_default())).collect(),
    sources: sources.into_iter().zip(&st.sources).map(|((_, s, c), k)| (s, c, k.1.clone(), k.2.clone())).collect(),
    names: names.into_iter().zip(&st.names).map(|((_, n), k)| (n, k.1.clone())).collect(),
  });
  let (text, attr) = st.attr();
  Answer::Stream(text, st.info, if columns { attr } else { vec![] }, if columns { BTreeMap::new() } else { st.line_attr() })
}

thread_local! {
  /// identity (address of the mappings string) of every map a Map(c) operation of this thread
  /// got from the shared tree: a CachedSource must hand out the same stored instance every time
  static IDENTITIES: std::cell::RefCell<Vec<(bool, usize)>> = const { std::cell::RefCell::new(Vec::new()) };
}

fn identity(m: &Option<rspack_sources::SourceMap>) -> usize {
  m.as_ref().map_or(0, |m| m.mappings().as_ptr() as usize)
}

fn run_op<'a>(tree: &'a BoxSource, other: &BoxSource, near: &BoxSource, spec: &Spec, text: &str, op: Op, keep: &mut Vec<Retained<'a>>) -> Answer {
  let r = guard(|| match op {
    Op::Source => Answer::Text(tree.source().to_string()),
    Op::Rope => Answer::Text(tree.rope().to_string()),
    Op::Buffer => Answer::Bytes(tree.buffer().to_vec()),
    Op::Size => Answer::Size(tree.size()),
    Op::Map(c) => {
      let m = tree.map(&opts(c, false));
      IDENTITIES.with(|i| i.borrow_mut().push((c, identity(&m))));
      let some = (!spec.any(&|s| matches!(s, Spec::Sms { .. } | Spec::Custom { .. }))).then_some(m.is_some());
      Answer::MapAttr(attr_from_map(m.as_ref(), text, c).unwrap_or_else(|e| vec![Some((e, None, 0, 0, None))]), some)
    }
    Op::Stream(c) => stream_answer(&**tree, c, keep),
    Op::Hash => {
      // the operand of EqNear is hashed too (its answer is of no interest here), so that both sides of that
      // comparison can have been hashed by the time it runs
      let _ = hash_of(&**near);
      Answer::Hash(hash_of(&**tree))
    }
    Op::CloneSource => {
      let cl = dyn_clone::clone_box(&**tree);
      Answer::Text(cl.source().to_string())
    }
    Op::CloneMap(c) => {
      let cl = dyn_clone::clone_box(&**tree);
      let m = cl.map(&opts(c, false));
      let some = (!spec.any(&|s| matches!(s, Spec::Sms { .. } | Spec::Custom { .. }))).then_some(m.is_some());
      Answer::MapAttr(attr_from_map(m.as_ref(), text, c).unwrap_or_else(|e| vec![Some((e, None, 0, 0, None))]), some)
    }
    Op::CloneMutate => match (**tree).as_any().downcast_ref::<rspack_sources::ReplaceSource<BoxSource>>() {
      Some(r) => {
        let mut cl = r.clone();
        cl.insert(0, "<+>", None);
        let first = cl.source().to_string();
        let second = cl.source().to_string();
        Answer::Text(format!("{first}\u{0}{second}\u{0}{}", cl.size()))
      }
      None => {
        let cl = dyn_clone::clone_box(&**tree);
        let first = cl.source().to_string();
        let second = cl.source().to_string();
        Answer::Text(format!("{first}\u{0}{second}\u{0}{}", cl.size()))
      }
    },
    Op::EqTwin => Answer::Eq(**tree == *build(spec)),
    Op::EqShared(rev) => Answer::Eq(if rev { **other == **tree } else { **tree == **other }),
    Op::EqNear(rev) => Answer::Eq(if rev { **near == **tree } else { **tree == **near }),
  });
  r.unwrap_or_else(Answer::Panic)
}

/// A CachedSource beneath a ReplaceSource warms up during the run: its replay coarsens chunks and
/// the ReplaceSource above cuts by chunk, so the tree itself attributes differently (at column
/// level, sometimes at line level) before and after -- single-threaded too (DESIGN.md 1.5 rule 1).
/// For such trees only text, end information, size, hash and equality are compared.
fn coarse(a: &Answer) -> Answer {
  match a {
    Answer::MapAttr(_, some) => Answer::MapAttr(vec![], *some),
    Answer::Stream(t, i, _, _) => Answer::Stream(t.clone(), *i, vec![], BTreeMap::new()),
    other => other.clone(),
  }
}

/// Trees that attribute differently before and after a cache warmed up, single-threaded too: a CachedSource beneath a
/// ReplaceSource (rule 1), and a CachedSource over non-ASCII text with mapped text in it (known finding W2: the replay
/// counts characters where the cold stream counted bytes).  Only text, bytes, end information, size, hash and equality are
/// compared for them.
fn coarse_only(tree: &Spec) -> bool {
  tree.cached_under_replace()
    || (tree.has_cached() && !model_text(tree).is_ascii() && tree.any(&|s| matches!(s, Spec::Orig { .. } | Spec::Custom { .. })))
}

/// the same operation on a fresh twin, single-threaded, no scheduler
fn expected(p: &Program) -> Vec<Vec<Answer>> {
  let text = model_text(&p.tree);
  let near = near_spec(p);
  p.threads
    .iter()
    .map(|ops| {
      ops
        .iter()
        .map(|op| {
          let twin = build(&p.tree);
          let twin_other = build(&p.tree);
          let twin_near = build(&near);
          let mut keep = vec![];
          run_op(&twin, &twin_other, &twin_near, &p.tree, &text, *op, &mut keep)
        })
        .collect()
    })
    .collect()
}

type Job = Box<dyn FnOnce() + Send>;

/// long-lived worker threads (one pool per runner thread): spawning threads per
/// execution is dominated by kernel time when 16 runner threads do it at once
struct Pool {
  workers: Vec<std::sync::mpsc::Sender<Job>>,
}

impl Pool {
  fn new(n: usize) -> Pool {
    let workers = (0..n)
      .map(|_| {
        let (tx, rx) = std::sync::mpsc::channel::<Job>();
        std::thread::Builder::new()
          .stack_size(16 << 20)
          .spawn(move || {
            while let Ok(job) = rx.recv() {
              job();
            }
          })
          .expect("spawn worker");
        tx
      })
      .collect();
    Pool { workers }
  }
}

thread_local! {
  static POOL: std::cell::RefCell<Option<Pool>> = const { std::cell::RefCell::new(None) };
}

pub struct RunOut {
  /// (columns, identity) of every map the shared tree handed out, incl. one final call per column setting
  pub identities: Vec<(bool, usize)>,
  pub answers: Vec<Vec<Answer>>,
  pub violations: Vec<String>,
  pub deadlock: bool,
  pub decisions: Vec<crate::sched::Decision>,
  pub inside_switches: u32,
  pub points: u64,
  pub trace: Vec<String>,
}

/// Execute the program once under `schedule`.
pub fn execute(p: &Program, schedule: &[u8], max_preemptions: u32) -> RunOut {
  let n = p.threads.len();
  let sched = Sched::new(n, schedule.to_vec(), max_preemptions);
  let tree: BoxSource = build_shared(p);
  let text = Arc::new(model_text(&p.tree));
  let answers: Arc<Mutex<Vec<Vec<Answer>>>> = Arc::new(Mutex::new(vec![vec![]; n]));
  let retained_err: Arc<Mutex<Vec<String>>> = Arc::new(Mutex::new(vec![]));
  let identities: Arc<Mutex<Vec<(bool, usize)>>> = Arc::new(Mutex::new(vec![]));
  let (done_tx, done_rx) = std::sync::mpsc::channel::<usize>();
  let other: BoxSource = build_shared(p);
  let near: BoxSource = build(&near_spec(p));
  let pool_ok = POOL.with(|pool| {
    let mut pool = pool.borrow_mut();
    if pool.is_none() {
      *pool = Some(Pool::new(3));
    }
    let pool = pool.as_ref().unwrap();
    for (tid, ops) in p.threads.iter().enumerate() {
      let (sched, tree, other, near, text, answers, retained_err, ops, spec, done_tx, identities) =
        (sched.clone(), tree.clone(), other.clone(), near.clone(), text.clone(), answers.clone(), retained_err.clone(), ops.clone(), p.tree.clone(), done_tx.clone(), identities.clone());
      let job: Job = Box::new(move || {
        IDENTITIES.with(|i| i.borrow_mut().clear());
        install_hook(&sched, tid);
        sched.begin(tid);
        let mut keep: Vec<Retained> = vec![];
        for op in ops {
          // operation boundary: a schedule point of its own
          sched.point(tid, rspack_sources::verif::Event::Access, "op", 0, false, false);
          let a = run_op(&tree, &other, &near, &spec, &text, op, &mut keep);
          answers.lock().unwrap()[tid].push(a);
        }
        remove_hook();
        identities.lock().unwrap().extend(IDENTITIES.with(|i| i.borrow().clone()));
        sched.finish(tid);
        // what was borrowed during streaming is read again after ALL threads have finished
        if sched.wait_all_done() {
          for k in &keep {
            if let Err(e) = k.verify() {
              retained_err.lock().unwrap().push(e);
            }
          }
        }
        drop(keep);
        drop(tree);
        let _ = done_tx.send(tid);
      });
      if pool.workers[tid].send(job).is_err() {
        return false;
      }
    }
    true
  });
  assert!(pool_ok, "worker pool is gone");
  sched.start();
  let ok = sched.wait_all_done();
  if ok {
    for _ in 0..n {
      let _ = done_rx.recv();
    }
  } else {
    // deadlock: the workers stay parked for ever; abandon this pool
    POOL.with(|pool| {
      if let Some(p) = pool.borrow_mut().take() {
        std::mem::forget(p);
      }
    });
  }
  // on a deadlock the workers stay parked for ever (leaked); the run is a violation anyway
  let mut violations = sched.with(|g| g.violations.clone());
  violations.extend(retained_err.lock().unwrap().iter().cloned());
  // one more map() per column setting after everything has finished
  let mut ids = identities.lock().unwrap().clone();
  if ok && matches!(p.tree, Spec::Cached(_)) {
    for c in [false, true] {
      if ids.iter().any(|x| x.0 == c) {
        if let Ok(m) = guard(|| tree.map(&opts(c, false))) {
          ids.push((c, identity(&m)));
        }
      }
    }
  }
  let out = RunOut {
    identities: ids,
    answers: answers.lock().unwrap().clone(),
    violations,
    deadlock: sched.with(|g| g.deadlock),
    decisions: sched.with(|g| g.decisions.clone()),
    inside_switches: sched.with(|g| g.inside_switches),
    points: sched.with(|g| g.points),
    trace: sched.with(|g| g.trace.clone()),
  };
  out
}

fn judge(p: &Program, want: &[Vec<Answer>], out: &RunOut, schedule: &[u8]) -> Result<(), String> {
  let sched_str = format!("schedule {:?}", out.decisions.iter().map(|d| d.choice).collect::<Vec<_>>());
  let _ = schedule;
  if let Some(v) = out.violations.first() {
    return Err(format!("{v}; {sched_str}; trace: {}", out.trace.join(" | ")));
  }
  // write-once cache: every map() of a CachedSource root hands out the one stored instance
  if matches!(p.tree, Spec::Cached(_)) {
    for c in [false, true] {
      let v: Vec<usize> = out.identities.iter().filter(|x| x.0 == c).map(|x| x.1).collect();
      if v.windows(2).any(|w| w[0] != w[1]) {
        return Err(format!(
          "the map cached for columns={c} was replaced during the run: map() handed out different stored instances {v:x?}; {sched_str}; trace: {}",
          out.trace.join(" | ")
        ));
      }
    }
  }
  for (t, ops) in p.threads.iter().enumerate() {
    for (k, op) in ops.iter().enumerate() {
      let cu = coarse_only(&p.tree);
      let got_c = out.answers[t].get(k).map(|a| if cu { coarse(a) } else { a.clone() });
      let got = got_c.as_ref();
      let w_c = if cu { coarse(&want[t][k]) } else { want[t][k].clone() };
      let w = &w_c;
      if got != Some(w) {
        let show = |a: Option<&Answer>| match a {
          Some(Answer::MapAttr(v, some)) => format!("map (there is one: {some:?}) attributing {:?}", v.iter().flatten().next()),
          Some(Answer::Stream(t, i, _, _)) => format!("stream of {t:?} ending at {i:?}"),
          Some(x) => format!("{x:?}"),
          None => "<no answer>".into(),
        };
        return Err(format!(
          "thread {t} op #{k} {op:?} answered {} but answers {} single-threaded; {sched_str}; trace: {}",
          show(got),
          show(Some(w)),
          out.trace.join(" | ")
        ));
      }
    }
  }
  Ok(())
}

impl Prop for C18 {
  type Case = Case;
  const ID: &'static str = "C18";
  fn rule(&self) -> String {
    "program: a shared tree (depth<=3) over ReplaceSource (unsorted on entry), CachedSource (cold), RawSource / \
     RawBufferSource (undecoded), OriginalSource, ConcatSource and a user-defined child source with schedule points of its \
     own, plus 2-3 threads with 1-3 operations each from source/size/map(c)/stream(c)/hash/clone->source/clone->map/==; \
     schedule: a choice at every decision point (guarded library schedule points + operation boundaries), real threads run \
     strictly one at a time under a harness-owned scheduler with lock modelling. Leg 1: random (mostly sparse) schedules. \
     Leg 2: for each generated program EVERY schedule with <=2 preemptions (depth-first, stateless re-execution, capped). \
     Leg 3: the same programs with really parallel, barrier-released threads and no scheduler (reaches code that bypasses \
     the instrumented accesses; not counted as non-trivial). \
     Oracle: each answer equals the same operation on a fresh twin run single-threaded; no deadlock; a cached map is never \
     replaced (hook at the store, and identity of the instance every map() call hands out); borrowed chunks/names/contents are re-read after all threads finished. Non-trivial: a schedule with >=1 context \
     switch inside a library window (between two schedule points of one call); distinct by hash of the case JSON".into()
  }
  fn legs(&self, _tier: Tier) -> Vec<Leg<Case>> {
    vec![
      Leg { name: "random schedules", source: Cases::Generated(Box::new(random_case), 60_000, 600_000) },
      Leg { name: "all schedules with <=2 preemptions per program", source: Cases::Generated(Box::new(exhaustive_case), 192, 2400) },
      Leg { name: "really parallel threads, barrier-released, 25 rounds per program (unscheduled stress)", source: Cases::Generated(Box::new(stress_case), 4_000, 60_000) },
    ]
  }
  fn floor(&self, tier: Tier) -> u64 {
    tier.pick(200, 2000)
  }
  fn stages(&self, ctx: &Ctx) -> Vec<Stage> {
    if ctx.tier == Tier::Thorough {
      // the same executions under AddressSanitizer: a replaced / freed cached map that a replay
      // handed out borrows into shows as a use-after-free when the borrows are re-read
      crate::fuzz::campaigns("C18", &["sched_prog"], ctx)
    } else {
      vec![]
    }
  }
  fn extra_coverage(&self, _tier: Tier) -> BTreeMap<String, serde_json::Value> {
    let (runs, capped, points) = (
      EXH_RUNS.load(std::sync::atomic::Ordering::Relaxed),
      EXH_CAPPED.load(std::sync::atomic::Ordering::Relaxed),
      POINTS.load(std::sync::atomic::Ordering::Relaxed),
    );
    [
      ("schedules_executed_in_exhaustive_leg".to_string(), serde_json::json!(runs)),
      ("programs_whose_enumeration_hit_the_cap".to_string(), serde_json::json!(capped)),
      ("schedule_points_passed".to_string(), serde_json::json!(points)),
      ("exhaustive".to_string(), serde_json::json!(false)),
      (
        "exhaustive_subspace".to_string(),
        serde_json::json!("per generated program of leg 2: all schedules with <= 2 preemptions at the granularity of the schedule points (unless the cap was hit, see programs_whose_enumeration_hit_the_cap)"),
      ),
    ]
    .into_iter()
    .collect()
  }
  fn check(&self, case: &Case) -> CheckResult {
    let p = &case.program;
    let want = expected(p);
    if let Some(a) = want.iter().flatten().find(|a| matches!(a, Answer::Panic(_))) {
      return Err(format!("single-threaded reference run failed: {a:?}"));
    }
    match &case.mode {
      Mode::Schedule(s) => {
        let out = execute(p, s, 3);
        POINTS.fetch_add(out.points, std::sync::atomic::Ordering::Relaxed);
        judge(p, &want, &out, s)?;
        Ok(
          CaseInfo::nt(out.inside_switches >= 1)
            .class(out.inside_switches >= 1, "context switch inside a library window")
            .class(p.tree.has_cached(), "tree with CachedSource")
            .class(p.tree.has_replace(), "tree with ReplaceSource")
            .class(p.tree.any(&|s| matches!(s, Spec::Custom { .. })), "tree with user-defined child")
            .class(p.threads.len() == 3, "3 threads"),
        )
      }
      Mode::Stress { rounds } => {
        for round in 0..*rounds {
          let got = execute_parallel(p).map_err(|e| format!("really parallel run #{round}: {e}"))?;
          for (t, ops) in p.threads.iter().enumerate() {
            for (k, op) in ops.iter().enumerate() {
              let cu = coarse_only(&p.tree);
              let g = got[t].get(k).map(|a| if cu { coarse(a) } else { a.clone() });
              let w = if cu { coarse(&want[t][k]) } else { want[t][k].clone() };
              if g != Some(w) || got[t].len() != ops.len() {
                let bad = got[t].iter().find(|a| matches!(a, Answer::Panic(_)));
                return Err(format!(
                  "really parallel run #{round}: thread {t} op #{k} {op:?} did not answer as single-threaded ({}); this leg is not deterministic: re-run the case several times",
                  match bad { Some(Answer::Panic(m)) => m.clone(), _ => "different answer".into() }
                ));
              }
            }
          }
        }
        Ok(CaseInfo::default().class(true, "program run with really parallel threads").class(p.tree.any(&|s| matches!(s, Spec::RawBuf(_) | Spec::RawBytes(_))), "stress: tree with a lazily decoded buffer leaf"))
      }
      Mode::Exhaustive { max_preemptions, cap } => {
        let mut schedule: Vec<u8> = vec![];
        let mut runs = 0u32;
        let mut inside = 0u32;
        loop {
          if std::env::var_os("VERIF_C18_TRACE").is_some() {
            eprintln!("run {runs} schedule {schedule:?}");
          }
          let out = execute(p, &schedule, *max_preemptions);
          runs += 1;
          POINTS.fetch_add(out.points, std::sync::atomic::Ordering::Relaxed);
          inside += (out.inside_switches >= 1) as u32;
          if let Err(e) = judge(p, &want, &out, &schedule) {
            // make the concrete schedule replayable on its own
            let concrete = Case { program: p.clone(), mode: Mode::Schedule(out.decisions.iter().map(|d| d.choice).collect()) };
            let dir = std::env::var("VERIF_DIR").unwrap_or_else(|_| "/verif".into());
            let _ = std::fs::create_dir_all(format!("{dir}/replays/C18"));
            let path = format!("{dir}/replays/C18/schedule-{:08x}.json", runs);
            let _ = std::fs::write(&path, serde_json::to_string_pretty(&serde_json::json!({"property": "C18", "reason": e, "case": concrete})).unwrap());
            return Err(format!("{e} (found by exhaustive enumeration after {runs} schedules; concrete schedule saved as {path})"));
          }
          match next_schedule(&out.decisions, *max_preemptions) {
            Some(s) => schedule = s,
            None => break,
          }
          if runs >= *cap {
            EXH_CAPPED.fetch_add(1, std::sync::atomic::Ordering::Relaxed);
            break;
          }
        }
        EXH_RUNS.fetch_add(runs as u64, std::sync::atomic::Ordering::Relaxed);
        Ok(
          CaseInfo::nt(inside >= 1)
            .class(true, "program explored exhaustively (<=2 preemptions)")
            .class(p.tree.has_cached(), "tree with CachedSource")
            .class(p.tree.has_replace(), "tree with ReplaceSource"),
        )
      }
    }
  }
}

static EXH_RUNS: std::sync::atomic::AtomicU64 = std::sync::atomic::AtomicU64::new(0);
static EXH_CAPPED: std::sync::atomic::AtomicU64 = std::sync::atomic::AtomicU64::new(0);
static POINTS: std::sync::atomic::AtomicU64 = std::sync::atomic::AtomicU64::new(0);
