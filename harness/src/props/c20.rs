//! C20 Hashes separate observably different sources and are reproducible

use std::io::Write;
use std::process::{Command, Stdio};

use proptest::collection::vec;
use proptest::prelude::*;
use rspack_sources::Source;
use serde::{Deserialize, Serialize};

use crate::build::build;
use crate::edit::{all_edits, pick_edit};
use crate::gen::{normalize, tree, GenCfg};
use crate::observe::{guard, opts};
use crate::props::c05::hash_of;
use crate::props::c14::OBS;
use crate::runner::*;
use crate::spec::Spec;

pub struct C20;

#[derive(Clone, Debug, Serialize, Deserialize)]
pub enum Case {
  /// x and x with one edit (selector)
  Edit { x: Spec, edit: u16 },
  /// two independently generated trees
  Independent { x: Spec, y: Spec },
  /// reproducibility: hashes of these trees are recomputed in a freshly spawned process,
  /// on another thread, and after an observer history
  Repro { specs: Vec<Spec>, history: Vec<u8> },
  /// x is a SourceMapSource leaf; y is built from a clone of x's SourceMap object (sharing its
  /// reference-counted payload) with one setter applied (c14::SETTERS), both wrapped the same way
  Shared { x: Spec, setter: u8, wrap: u8 },
}

fn cfg() -> GenCfg {
  GenCfg::positional()
}

fn with_meta(s: Spec, meta: (u8, u8, u8)) -> Spec {
  // give attached maps file / debugId values now and then so that those fields take part
  fn go(s: &mut Spec, meta: (u8, u8, u8)) {
    match s {
      Spec::Sms { map, .. } | Spec::SmsInner { map, .. } => {
        if meta.0 % 3 == 0 {
          map.file = Some("out.js".into());
        }
        if meta.1 % 3 == 0 {
          map.debug_id = Some("1234-5678".into());
        }
      }
      Spec::Concat { children, .. } => children.iter_mut().for_each(|c| go(c, meta)),
      Spec::Replace { inner, .. } | Spec::Cached(inner) | Spec::Boxed(inner) => go(inner, meta),
      _ => {}
    }
    if let Spec::SmsInner { inner, .. } = s {
      if meta.2 % 3 == 0 {
        inner.debug_id = Some("abcd".into());
      }
    }
  }
  let mut s = s;
  go(&mut s, meta);
  s
}

fn strategy_pairs() -> BoxedStrategy<Case> {
  prop_oneof![
    4 => (tree(cfg()), any::<u16>(), (any::<u8>(), any::<u8>(), any::<u8>()), vec(any::<u16>(), 0..=4)).prop_map(|(x, edit, meta, bin)| Case::Edit { x: crate::props::common::with_binary(with_meta(x, meta), &bin), edit }),
    1 => (tree(cfg()), tree(cfg())).prop_map(|(x, y)| Case::Independent { x, y }),
  ]
  .boxed()
}

fn strategy_shared() -> BoxedStrategy<Case> {
  let cfg = cfg();
  (crate::gen::text(true, 8), crate::gen::abs_map(cfg), 0u8..crate::props::c14::SETTERS.len() as u8, 0u8..4u8)
    .prop_map(move |(text, am, setter, wrap)| {
      let map = crate::gen::concretize_map(&text, &am, true);
      Case::Shared { x: Spec::Sms { text, name: "g.js".into(), map, full: None }, setter, wrap }
    })
    .boxed()
}

fn strategy_repro() -> BoxedStrategy<Case> {
  // 40 trees, ten of them extended by a raw leaf of 60-260 bytes (a size at which hashing strategies change) - bare, cached,
  // or next to the tree
  (vec(tree(cfg()), 40..=40), vec(0u8..OBS.len() as u8, 0..=4), vec((crate::gen::text(true, 6), 60usize..=260, 0u8..5u8), 10..=10))
    .prop_map(|(specs, history, extra)| {
      let mut specs: Vec<Spec> = specs.into_iter().map(|s| normalize(s, cfg())).collect();
      for (i, (pat, n, kind)) in extra.into_iter().enumerate() {
        let pat = if pat.is_empty() { "ab;".to_string() } else { pat };
        let mut t = String::new();
        while t.len() < n {
          t.push_str(&pat);
        }
        let old = std::mem::replace(&mut specs[i * 4], Spec::Raw(String::new()));
        specs[i * 4] = match kind {
          0 => Spec::Raw(t),
          1 => Spec::RawStr(t),
          2 => Spec::Cached(Box::new(Spec::RawStr(t))),
          3 => Spec::Concat { how: 1, children: vec![Spec::RawStr(t), old] },
          _ => Spec::Concat { how: 0, children: vec![old, Spec::Cached(Box::new(Spec::Raw(t)))] },
        };
      }
      Case::Repro { specs, history }
    })
    .boxed()
}

/// the maps are compared through their JSON text, not through `SourceMap ==` (which is one of the things under test)
#[derive(PartialEq)]
struct Obs4 {
  source: String,
  buffer: Vec<u8>,
  maps: [Option<String>; 2],
}

fn obs4(s: &dyn Source) -> Obs4 {
  let j = |m: Option<rspack_sources::SourceMap>| m.map(|m| m.to_json().unwrap_or_else(|e| format!("<to_json failed: {e}>")));
  Obs4 { source: s.source().to_string(), buffer: s.buffer().to_vec(), maps: [j(s.map(&opts(true, false))), j(s.map(&opts(false, false)))] }
}

/// a second, unrelated hasher, used to tell a 64-bit collision from a forgotten ingredient
fn hash_fnv(s: &dyn Source) -> u64 {
  struct Fnv(u64);
  impl std::hash::Hasher for Fnv {
    fn finish(&self) -> u64 {
      self.0
    }
    fn write(&mut self, bytes: &[u8]) {
      for b in bytes {
        self.0 ^= *b as u64;
        self.0 = self.0.wrapping_mul(0x100000001b3);
      }
    }
  }
  let mut h = Fnv(0xcbf29ce484222325);
  s.update_hash(&mut h);
  std::hash::Hasher::finish(&h)
}

/// `vcheck hashof`: read one JSON Spec per line on stdin, print one hash per line
pub fn hashof_main() -> i32 {
  let stdin = std::io::stdin();
  let mut line = String::new();
  loop {
    line.clear();
    match stdin.read_line(&mut line) {
      Ok(0) | Err(_) => break,
      Ok(_) => {
        let spec: Spec = match serde_json::from_str(line.trim()) {
          Ok(s) => s,
          Err(e) => {
            println!("ERR {e}");
            continue;
          }
        };
        let h = hash_of(&*build(&spec));
        println!("{h}");
      }
    }
  }
  0
}

fn child_hashes(specs: &[Spec]) -> Result<Vec<u64>, String> {
  let exe = std::env::current_exe().map_err(|e| e.to_string())?;
  let mut ch = Command::new(exe)
    .arg("hashof")
    .arg("-")
    .stdin(Stdio::piped())
    .stdout(Stdio::piped())
    .spawn()
    .map_err(|e| format!("cannot spawn the child process: {e}"))?;
  {
    let mut si = ch.stdin.take().unwrap();
    for s in specs {
      writeln!(si, "{}", serde_json::to_string(s).unwrap()).map_err(|e| e.to_string())?;
    }
  }
  let out = ch.wait_with_output().map_err(|e| e.to_string())?;
  let text = String::from_utf8_lossy(&out.stdout);
  let v: Vec<u64> = text.lines().filter_map(|l| l.trim().parse().ok()).collect();
  if v.len() != specs.len() {
    return Err(format!("harness: child process returned {} hashes for {} specs: {text}", v.len(), specs.len()));
  }
  Ok(v)
}

impl Prop for C20 {
  type Case = Case;
  const ID: &'static str = "C20";
  fn rule(&self) -> String {
    "pairs: an ASCII tree and the same tree with one edit from edit::all_edits (leaf text/bytes, Original file name, \
     replacement start/end/content/name/enforce/add/remove, child add/remove/reorder, every field of an attached map \
     or inner map incl. file, sourceRoot, debugId; the SourceMapSource name is excluded), at every depth, or two \
     independent trees; or (third leg) two SourceMapSources whose maps share their payload (clone + one setter), bare or wrapped; \
     a pair is KEPT only if source(), buffer(), map(columns) or map(lines) (as JSON text) differ, and then must \
     compare unequal and hash differently (a second hasher rules out a 64-bit collision). Reproducibility: batches of \
     40 trees (ten of them with a raw leaf of 60-260 bytes) are hashed in a freshly spawned process, on another thread, after an observer history, and with every raw leaf built through the other public constructor spellings (text in a `&'static str` at an unaligned address / in a heap copy), under SipHash and under a hasher that is sensitive to how bytes are cut into write calls. Non-trivial: a \
     kept pair whose edit is at depth>=2, or a reproducibility batch; distinct by hash of the case JSON".into()
  }
  fn legs(&self, _tier: Tier) -> Vec<Leg<Case>> {
    vec![
      Leg { name: "one-edit and independent pairs", source: Cases::Generated(Box::new(strategy_pairs), 500_000, 6_000_000) },
      Leg { name: "cross-process reproducibility (40 trees per case)", source: Cases::Generated(Box::new(strategy_repro), 32, 320) },
      Leg { name: "SourceMapSource pairs whose maps share their payload (clone + setter)", source: Cases::Generated(Box::new(strategy_shared), 30_000, 400_000) },
    ]
  }
  fn check(&self, case: &Case) -> CheckResult {
    let r = guard(|| -> Result<CaseInfo, String> {
      match case {
        Case::Repro { specs, history } => {
          let here: Vec<u64> = specs.iter().map(|s| hash_of(&*build(s))).collect();
          let there = child_hashes(specs)?;
          for (i, (a, b)) in here.iter().zip(&there).enumerate() {
            if a != b {
              return Err(format!("tree #{i} hashes to {a} in this process and to {b} in a freshly spawned process: {}", serde_json::to_string(&specs[i]).unwrap()));
            }
          }
          // another thread, and after an observer history on the same object
          let specs2 = specs.clone();
          let hist = history.clone();
          let other: Vec<(u64, u64)> = std::thread::spawn(move || {
            specs2
              .iter()
              .map(|s| {
                let o = build(s);
                let before = hash_of(&*o);
                for k in &hist {
                  apply_obs(&o, *k);
                }
                (before, hash_of(&*o))
              })
              .collect()
          })
          .join()
          .map_err(|_| "hashing thread panicked".to_string())?;
          for (i, (a, (b, c))) in here.iter().zip(&other).enumerate() {
            if a != b || a != c {
              return Err(format!("tree #{i}: hash {a} here, {b} on another thread, {c} after observers {:?}", history));
            }
          }
          // "does not depend on addresses": raw leaves spelled through the other public constructors (text in a
          // `&'static str` at an arbitrary address / in a heap copy), hashed with SipHash and with a hasher that is
          // sensitive to how bytes are cut into write calls
          for (i, s) in specs.iter().enumerate() {
            let split = crate::props::common::hash_split(&*build(s));
            for shift in [1u8, 2] {
              let re = crate::build::with_respell(shift, || build(s));
              if hash_of(&*re) != here[i] || crate::props::common::hash_split(&*re) != split {
                return Err(format!("tree #{i} hashes differently when its raw leaves are built through another constructor spelling (same content, text at another address): {}", serde_json::to_string(s).unwrap()));
              }
            }
          }
          // each tree doubled in an add-typed ConcatSource, once from separately allocated
          // children and once as c.add(c.clone()), i.e. with the same reference-counted children at two positions
          for (i, s) in specs.iter().enumerate() {
            let d = Spec::Concat { how: 1, children: vec![s.clone(), s.clone()] };
            let (a, b) = (hash_of(&*build(&d)), hash_of(&*crate::build::build_shared(&d)));
            if a != b {
              return Err(format!("tree #{i} doubled hashes to {a} with separately allocated children and to {b} when both halves share their children: {}", serde_json::to_string(s).unwrap()));
            }
          }
          Ok(CaseInfo::nt(true).class(true, "reproducibility batch"))
        }
        Case::Edit { x, edit } => {
          // the same kind of pair made the way a program makes it: clone a typed ReplaceSource, then give
          // the clone one more replacement (the two share whatever clones share)
          if let Spec::Replace { inner, repls } = x {
            let mut a = rspack_sources::ReplaceSource::new(build(inner));
            for r in repls {
              crate::build::apply_repl(&mut a, r);
            }
            let _ = a.source();
            let mut b = a.clone();
            b.insert(0, "<+>", None);
            if a.source() != b.source() {
              if a == b {
                return Err("a ReplaceSource and its clone with one more insertion differ in source() but compare equal".into());
              }
              if hash_of(&a) == hash_of(&b) {
                return Err("a ReplaceSource and its clone with one more insertion differ in source() but hash identically".into());
              }
            }
          }
          let Some(ed) = pick_edit(all_edits(x, false), *edit) else {
            return Ok(CaseInfo::default());
          };
          pair(x, &ed.result, ed.kind, ed.depth)
        }
        Case::Independent { x, y } => pair(x, y, "independent trees", 0),
        Case::Shared { x, setter, wrap } => {
          let (a, b, _) = crate::props::c14::shared_pair_of(x, *setter, *wrap).ok_or("harness: Shared case needs an Sms leaf")?;
          let kind = crate::props::c14::SETTERS[*setter as usize];
          if obs4(&*a) == obs4(&*b) {
            return Ok(CaseInfo::default().class(true, "pair dropped: no observable difference"));
          }
          if *a == *b {
            return Err(format!("two sources whose maps share their payload differ observably (setter {kind}, wrapper {wrap}) but compare equal"));
          }
          if hash_of(&*a) == hash_of(&*b) {
            return Err(format!("two sources whose maps share their payload differ observably (setter {kind}, wrapper {wrap}) but hash identically"));
          }
          Ok(CaseInfo::nt(true).class(true, "kept pair").class(true, "maps sharing their payload"))
        }
      }
    });
    match r {
      Err(p) => Err(p),
      Ok(x) => x,
    }
  }
}

fn apply_obs(s: &rspack_sources::BoxSource, k: u8) {
  match OBS[k as usize] {
    "source" => drop(s.source()),
    "buffer" => drop(s.buffer()),
    "size" => drop(s.size()),
    "rope" => drop(s.rope().to_string()),
    "map(true)" => drop(s.map(&opts(true, false))),
    "map(false)" => drop(s.map(&opts(false, false))),
    "stream(true)" => drop(crate::observe::stream(&**s, &opts(true, false))),
    "stream(false)" => drop(crate::observe::stream(&**s, &opts(false, false))),
    "hash" => drop(hash_of(&**s)),
    "clone" => drop(s.clone()),
    _ => {}
  }
}

fn pair(xs: &Spec, ys: &Spec, kind: &'static str, depth: usize) -> CheckResult {
  let (x, y) = (build(xs), build(ys));
  let (hx, hy) = (hash_of(&*x), hash_of(&*y));
  let eq = *x == *y;
  // observers on fresh objects (a warm CachedSource must not influence what we see)
  let differ = obs4(&*build(xs)) != obs4(&*build(ys));
  if !differ {
    return Ok(CaseInfo::default().class(true, "pair dropped: no observable difference"));
  }
  if eq {
    return Err(format!("the trees differ observably ({kind}, depth {depth}) but compare equal"));
  }
  if hx == hy {
    let (fx, fy) = (hash_fnv(&*x), hash_fnv(&*y));
    if fx == fy && crate::props::common::k2_shape(xs, ys) && !crate::known::strict() {
      // known finding K2: the two trees feed the hasher the same sequence (a ConcatSource does not mark
      // where its child list ends); counted, not reported again
      let mut info = CaseInfo::default().class(true, "pair in the shape of known finding K2 (same hash input by construction)");
      info.excluded_known = true;
      return Ok(info);
    }
    if fx == fy {
      return Err(format!(
        "the trees differ observably ({kind}, depth {depth}) but hash identically with two unrelated hashers: an ingredient is missing from the hash"
      ));
    }
    return Err(format!("the trees differ observably ({kind}, depth {depth}) and hash to the same 64-bit value {hx} (a second hasher separates them: collision)"));
  }
  let binary = xs.any(&|s| matches!(s, Spec::RawBytes(b) | Spec::RawBuf(b) if std::str::from_utf8(b).is_err()));
  let mut info = CaseInfo::nt(depth >= 2).class(true, "kept pair").class(binary, "tree with a binary leaf that is not valid UTF-8").class(
    binary && crate::spec::model_text(xs) == crate::spec::model_text(ys) && crate::spec::model_bytes(xs) != crate::spec::model_bytes(ys),
    "pair differing in buffer() only (same lossy text)",
  );
  info.classes.push(kind);
  Ok(info.class(depth >= 2, "edit at depth>=2"))
}
