//! C11 Produced source maps and chunk streams are well-formed

use proptest::strategy::Strategy;

use crate::build::build;
use crate::gen::{tree, GenCfg};
use crate::model::vlq;
use crate::observe::{guard, opts, positions};
use crate::props::common::*;
use crate::runner::*;
use crate::spec::model_text;

pub struct C11;

impl Prop for C11 {
  type Case = TreeCase;
  const ID: &'static str = "C11";
  fn rule(&self) -> String {
    "ASCII trees from gen::tree(positional); map() for both column settings is checked with validity predicates \
     (alphabet, strictly increasing generated positions, lines>=1, before the end of source(), indices inside the \
     tables) and the chunk stream of all four (columns, final_source) settings for announce-before-use and dense \
     indices. Non-trivial: a produced map has >=3 segments over >=2 sources; distinct by hash of the case JSON".into()
  }
  fn legs(&self, _tier: Tier) -> Vec<Leg<TreeCase>> {
    vec![
      Leg {
        name: "ascii trees",
        source: Cases::Generated(
          Box::new(|| tree(GenCfg::positional()).prop_map(|spec| TreeCase { spec }).boxed()),
          800_000,
          10_000_000,
        ),
      },
      Leg {
        name: "larger ascii trees (depth<=4, <=6 children, <=30 tokens)",
        source: Cases::Generated(
          Box::new(|| tree(GenCfg::positional_large()).prop_map(|spec| TreeCase { spec }).boxed()),
          50000,
          700000,
        ),
      },
    ]
  }
  fn stages(&self, ctx: &Ctx) -> Vec<Stage> {
    if ctx.tier == Tier::Thorough {
      crate::fuzz::campaigns("C11", &["tree_c11"], ctx)
    } else {
      vec![]
    }
  }
  fn check(&self, case: &TreeCase) -> CheckResult {
    let spec = &case.spec;
    let text = model_text(spec);
    let (_, end) = positions(&text);
    let mut nt = false;
    let mut k1 = false;
    let mut check_map = |columns: bool, map: &Option<rspack_sources::SourceMap>, how: &str| -> Result<(), String> {
      if let Some(m) = map {
        let ms = m.mappings();
        if let Some(c) = ms.bytes().find(|c| vlq::b64_value(*c).is_none() && *c != b',' && *c != b';') {
          return Err(format!("columns={columns}{how}: mappings {ms:?} contain the character {:?}", c as char));
        }
        let segs = vlq::decode(ms).map_err(|e| format!("columns={columns}{how}: mappings {ms:?} do not decode: {e:?}"))?;
        let mut last: Option<(u32, u32)> = None;
        let mut srcs = std::collections::BTreeSet::new();
        for s in &segs {
          let p = (s.line, s.col);
          let passthrough = crate::props::c03::passthrough_sms(spec) && !crate::known::strict();
          if last.is_some_and(|l| p <= l) {
            return Err(format!(
              "columns={columns}{how}: segment {}:{} does not come strictly after {:?}; mappings={ms:?}",
              p.0, p.1, last.unwrap()
            ));
          }
          if s.line < 1 || p >= end {
            if passthrough {
              k1 = true;
            } else {
              return Err(format!(
                "columns={columns}{how}: segment {}:{} is not before the end {}:{} of {text:?}; mappings={ms:?}",
                p.0, p.1, end.0, end.1
              ));
            }
          }
          if let Some(o) = &s.orig {
            srcs.insert(o.src);
            if o.src as usize >= m.sources().len() {
              return Err(format!("columns={columns}{how}: source index {} outside sources {:?}; mappings={ms:?}", o.src, m.sources()));
            }
            if o.name.is_some_and(|n| n as usize >= m.names().len()) {
              return Err(format!("columns={columns}{how}: name index {:?} outside names {:?}; mappings={ms:?}", o.name, m.names()));
            }
          }
          last = Some(p);
        }
        nt |= segs.len() >= 3 && srcs.len() >= 2;
      }
      Ok(())
    };
    let check_wf = |st: &crate::observe::Stream, columns: bool, final_source: bool, how: &str| -> Result<(), String> {
      if let Some(e) = st.wf_errors.first() {
        return Err(format!(
          "columns={columns} final_source={final_source}{how}: {e}; announced sources={:?} names={:?}",
          st.sources.iter().map(|s| (s.0, &s.1)).collect::<Vec<_>>(),
          st.names
        ));
      }
      Ok(())
    };
    for columns in [true, false] {
      let map = guard(|| build(spec).map(&opts(columns, false))).map_err(|p| format!("columns={columns}: map(): {p}"))?;
      check_map(columns, &map, "")?;
      for final_source in [false, true] {
        let st = fresh_stream(spec, columns, final_source).map_err(|p| format!("columns={columns} final_source={final_source}: {p}"))?;
        check_wf(&st, columns, final_source, "")?;
      }
    }
    // validity does not depend on which path produced an answer: a tree with a CachedSource is asked
    // everything twice on ONE object as well (the second round is answered from the caches)
    if spec.has_cached() {
      let obj = build(spec);
      for how in [" (one object, first round)", " (one object, second round)"] {
        for columns in [true, false] {
          for final_source in [false, true] {
            let st = guard(|| crate::observe::stream(&*obj, &opts(columns, final_source))).map_err(|p| format!("columns={columns} final_source={final_source}{how}: {p}"))?;
            check_wf(&st, columns, final_source, how)?;
          }
          let map = guard(|| obj.map(&opts(columns, false))).map_err(|p| format!("columns={columns}{how}: map(): {p}"))?;
          check_map(columns, &map, how)?;
        }
      }
    }
    let mut info = CaseInfo::nt(nt);
    info.excluded_known = k1;
    tree_classes(spec, &mut info);
    Ok(info)
  }
}
