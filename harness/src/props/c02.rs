//! C02 Reported generated positions are the true positions

use proptest::collection::vec;
use proptest::prelude::*;

use crate::gen::{concretize_repls, leaf, normalize, repls_for, tree, GenCfg};
use crate::observe::{guard, opts, positions, stream};
use crate::props::common::*;
use crate::runner::*;
use crate::spec::{model_text, Spec};

pub struct C02;

fn shares_line(spec: &Spec) -> bool {
  spec.any(&|s| match s {
    Spec::Concat { children, .. } => {
      let texts: Vec<String> = children.iter().map(model_text).collect();
      texts.windows(2).any(|w| !w[0].is_empty() && !w[0].ends_with('\n') && !w[1].is_empty())
    }
    _ => false,
  })
}

fn linebreak_edit(spec: &Spec) -> bool {
  spec.any(&|s| match s {
    Spec::Replace { inner, repls } => {
      let t = model_text(inner);
      repls.iter().any(|r| {
        let (a, b) = ((r.start as usize).min(t.len()), (r.end as usize).min(t.len()));
        t[a..b.max(a)].contains('\n') || r.content.contains('\n')
      })
    }
    _ => false,
  })
}

/// ReplaceSource (optionally two of them) above a CachedSource above a ConcatSource of 2-5 short leaves:
/// the cached rope has lines that span several pieces, the warm replay hands them out as multi-piece
/// chunks, and the replacements cut inside them
fn spanning_strategy() -> BoxedStrategy<TreeCase> {
  let cfg = GenCfg { max_tokens: 4, ..GenCfg::positional() };
  (vec(leaf(cfg), 2..=5), 0u8..5u8, repls_for(cfg, 4), proptest::option::weighted(0.4, repls_for(cfg, 3)))
    .prop_map(move |(children, how, (pool, abs), outer)| {
      let cached = Spec::Cached(Box::new(Spec::Concat { how, children }));
      let t = model_text(&cached);
      let mut s = Spec::Replace { inner: Box::new(cached), repls: concretize_repls(&t, &pool, &abs, false) };
      if let Some((pool2, abs2)) = outer {
        let t2 = model_text(&s);
        s = Spec::Replace { inner: Box::new(s), repls: concretize_repls(&t2, &pool2, &abs2, false) };
      }
      TreeCase { spec: normalize(s, cfg) }
    })
    .boxed()
}

impl Prop for C02 {
  type Case = TreeCase;
  const ID: &'static str = "C02";
  fn rule(&self) -> String {
    "ASCII trees from gen::tree(positional) (all source types, consistent maps on SourceMapSource leaves, \
     replacement pools incl. beyond-end), (plus a leg of ReplaceSource(s) above a CachedSource above a ConcatSource of 2-5 short leaves), each streamed on fresh objects with columns x final_source in {t,f}^2; trees with a CachedSource additionally on one \
     object three times over (cold, warm, after map()). \
     Non-trivial: a replacement deletes or inserts a line break, or two children of a ConcatSource share an output line; \
     distinct by hash of the case JSON".into()
  }
  fn legs(&self, _tier: Tier) -> Vec<Leg<TreeCase>> {
    vec![
      Leg {
        name: "ascii trees",
        source: Cases::Generated(
          Box::new(|| tree(GenCfg::positional()).prop_map(|spec| TreeCase { spec }).boxed()),
          1_000_000,
          12_000_000,
        ),
      },
      Leg {
        name: "stacks of 2-3 ReplaceSources with insertions at the end of the innermost one",
        source: Cases::Generated(Box::new(|| crate::gen::replace_stack(GenCfg { max_tokens: 5, ..GenCfg::positional() }).prop_map(|spec| TreeCase { spec }).boxed()), 150_000, 2_000_000),
      },
      Leg {
        name: "replacements cutting the multi-piece chunks of a warm CachedSource",
        source: Cases::Generated(Box::new(spanning_strategy), 200_000, 2_500_000),
      },
      Leg {
        name: "larger ascii trees (depth<=4, <=6 children, <=30 tokens)",
        source: Cases::Generated(
          Box::new(|| tree(GenCfg::positional_large()).prop_map(|spec| TreeCase { spec }).boxed()),
          60000,
          800000,
        ),
      },
    ]
  }
  fn stages(&self, ctx: &Ctx) -> Vec<Stage> {
    if ctx.tier == Tier::Thorough {
      crate::fuzz::campaigns("C02", &["tree_c02"], ctx)
    } else {
      vec![]
    }
  }
  fn check(&self, case: &TreeCase) -> CheckResult {
    let spec = &case.spec;
    let want = model_text(spec);
    let (pos, end) = positions(&want);
    for columns in [true, false] {
      // (a), (b): normal mode; (c): text-less mode
      let st = fresh_stream(spec, columns, false).map_err(|p| format!("columns={columns}: {p}"))?;
      check_stream(&st, &want, &pos, end, false).map_err(|e| format!("columns={columns}: {e}"))?;
      let fs = fresh_stream(spec, columns, true).map_err(|p| format!("columns={columns} final: {p}"))?;
      check_stream(&fs, &want, &pos, end, true).map_err(|e| format!("columns={columns} final_source: {e}"))?;
    }
    // a tree with a CachedSource answers from its cache the second time: true positions are true
    // positions whatever path produced the chunks, so the same oracle applies to one object streamed
    // again (warm) and streamed after map()
    if spec.has_cached() {
      let obj = crate::build::build(spec);
      for round in ["cold", "warm", "after map()"] {
        for columns in [true, false] {
          for final_source in [false, true] {
            if round == "after map()" && !final_source {
              guard(|| obj.map(&opts(columns, false))).map_err(|p| format!("map(columns={columns}): {p}"))?;
            }
            let st = guard(|| stream(&*obj, &opts(columns, final_source))).map_err(|p| format!("columns={columns} final_source={final_source} ({round}, one object): {p}"))?;
            check_stream(&st, &want, &pos, end, final_source).map_err(|e| format!("columns={columns} final_source={final_source} ({round} call on one object): {e}"))?;
          }
        }
      }
    }
    // the same oracle for an object whose construction was observed (source() and size() asked after every mutating
    // call of every ReplaceSource / ConcatSource of the tree): positions are those of the finished text, and the text
    // this very object returns from source() ends where its streams say it ends
    let observed = spec.any(&|s| matches!(s, Spec::Replace { repls, .. } if !repls.is_empty()) || matches!(s, Spec::Concat { children, .. } if children.len() >= 2));
    if observed {
      let obj = guard(|| {
        crate::build::build_observed(spec, &mut |s| {
          let _ = s.source().len();
          let _ = s.size();
        })
      })
      .map_err(|p| format!("observed construction: {p}"))?;
      for columns in [true, false] {
        for final_source in [false, true] {
          let st = guard(|| stream(&*obj, &opts(columns, final_source)))
            .map_err(|p| format!("columns={columns} final_source={final_source} (object observed while under construction): {p}"))?;
          check_stream(&st, &want, &pos, end, final_source)
            .map_err(|e| format!("columns={columns} final_source={final_source} (object observed while under construction): {e}"))?;
        }
      }
      let own = guard(|| obj.source().to_string()).map_err(|p| format!("source() of the observed object: {p}"))?;
      let own_end = positions(&own).1;
      if own_end != end {
        return Err(format!(
          "an object observed while under construction: its streams end at {}:{} but its source() {own:?} ends at {}:{}",
          end.0, end.1, own_end.0, own_end.1
        ));
      }
    }
    let mut info = CaseInfo::nt(linebreak_edit(spec) || shares_line(spec));
    tree_classes(spec, &mut info);
    Ok(info.class(shares_line(spec), "children sharing an output line").class(observed, "also built with observers between the mutating calls"))
  }
}

fn check_stream(st: &crate::observe::Stream, want: &str, pos: &[(u32, u32)], end: (u32, u32), final_source: bool) -> Result<(), String> {
  if st.info != end {
    return Err(format!("returned end {}:{} but the text {want:?} ends at {}:{}", st.info.0, st.info.1, end.0, end.1));
  }
  if final_source {
    for (k, ch) in st.chunks.iter().enumerate() {
      let p = (ch.line, ch.col);
      if p != end && pos.binary_search(&p).is_err() {
        return Err(format!("chunk #{k} reported at {}:{}, which is not a position of {want:?}", ch.line, ch.col));
      }
    }
    return Ok(());
  }
  let text = st.text();
  if text != want {
    return Err(format!("stream reassembles to {text:?}, reference text is {want:?}"));
  }
  let mut off = 0usize;
  for (k, ch) in st.chunks.iter().enumerate() {
    let t = ch.text.as_deref().unwrap_or("");
    if t.is_empty() {
      continue;
    }
    if pos[off] != (ch.line, ch.col) {
      return Err(format!("chunk #{k} {t:?} reported at {}:{} but its text starts at {}:{} of {want:?}", ch.line, ch.col, pos[off].0, pos[off].1));
    }
    off += t.len();
  }
  Ok(())
}
