//! C03 map() attributes every position exactly as the chunk stream does

use proptest::strategy::Strategy;

use crate::build::build;
use crate::gen::{tree, GenCfg};
use crate::observe::{attr_from_map, guard, opts, positions, strip};
use crate::props::common::*;
use crate::runner::*;
use crate::spec::{model_text, Spec};

pub struct C03;

/// `map()` of this tree is the verbatim pass-through of a SourceMapSource
/// without inner map (shape of known finding K1).
pub fn passthrough_sms(s: &Spec) -> bool {
  match s {
    Spec::Sms { .. } => true,
    Spec::Cached(i) | Spec::Boxed(i) => passthrough_sms(i),
    Spec::Replace { inner, repls } if repls.is_empty() => passthrough_sms(inner),
    _ => false,
  }
}

fn mixed_line(st: &crate::observe::Stream) -> bool {
  // >=1 mapped and >=1 unmapped non-empty chunk starting on a shared line
  let mut m = std::collections::BTreeMap::<u32, (bool, bool)>::new();
  for c in &st.chunks {
    if c.text.as_deref().unwrap_or("").is_empty() {
      continue;
    }
    let e = m.entry(c.line).or_default();
    if c.orig.is_some() {
      e.0 = true
    } else {
      e.1 = true
    }
  }
  m.values().any(|e| e.0 && e.1)
}

impl Prop for C03 {
  type Case = TreeCase;
  const ID: &'static str = "C03";
  fn rule(&self) -> String {
    "ASCII trees from gen::tree(positional); for each column setting the normal-mode chunk stream of a fresh \
     object is compared, per byte of source() (per output line for columns=false), with map() of another fresh \
     object resolved through the harness's own VLQ decoder. Non-trivial: some output line carries both a mapped \
     and an unmapped chunk and the tree has a ConcatSource with >=2 children or a ReplaceSource; distinct by \
     hash of the case JSON".into()
  }
  fn legs(&self, _tier: Tier) -> Vec<Leg<TreeCase>> {
    vec![
      Leg {
        name: "ascii trees",
        source: Cases::Generated(
          Box::new(|| tree(GenCfg::positional()).prop_map(|spec| TreeCase { spec }).boxed()),
          800_000,
          10_000_000,
        ),
      },
      Leg {
        name: "larger ascii trees (depth<=4, <=6 children, <=30 tokens)",
        source: Cases::Generated(
          Box::new(|| tree(GenCfg::positional_large()).prop_map(|spec| TreeCase { spec }).boxed()),
          50000,
          700000,
        ),
      },
      Leg {
        name: "SourceMapSource with inner map, outer map with a sourceRoot, bare or under one wrapper",
        source: Cases::Generated(
          Box::new(|| {
            let cfg = GenCfg::positional();
            (crate::gen::sms_inner(cfg), 0u8..5u8, 0u8..6u8)
              .prop_map(move |(spec, style, wrap)| {
                let leaf = crate::gen::rooted_inner(crate::gen::normalize(spec, cfg), style);
                let spec = match wrap {
                  0 | 1 => leaf,
                  2 => Spec::Cached(Box::new(leaf)),
                  3 => Spec::Replace { inner: Box::new(leaf), repls: vec![] },
                  4 => Spec::Boxed(Box::new(leaf)),
                  _ => Spec::Concat { how: 0, children: vec![leaf] },
                };
                TreeCase { spec }
              })
              .boxed()
          }),
          100_000,
          1_500_000,
        ),
      },
    ]
  }
  fn stages(&self, ctx: &Ctx) -> Vec<Stage> {
    if ctx.tier == Tier::Thorough {
      crate::fuzz::campaigns("C03", &["tree_c03"], ctx)
    } else {
      vec![]
    }
  }
  fn check(&self, case: &TreeCase) -> CheckResult {
    let spec = &case.spec;
    let text = model_text(spec);
    let mut nt = false;
    let mut k1 = false;
    for columns in [true, false] {
      let st = fresh_stream(spec, columns, false).map_err(|p| format!("columns={columns}: {p}"))?;
      let map = guard(|| build(spec).map(&opts(columns, false)))
        .map_err(|p| format!("columns={columns}: map(): {p}"))?;
      k1 |= agree(spec, &text, &st, map.as_ref(), columns, "")?;
      nt |= mixed_line(&st)
        && spec.any(&|s| matches!(s, Spec::Replace { .. }) || matches!(s, Spec::Concat { children, .. } if children.len() >= 2));
    }
    // "the chunk stream an outside caller obtains from the same object": for trees that keep answers (a CachedSource
    // somewhere, none beneath a ReplaceSource - DESIGN 1.5 rule 1) the stream and the map of ONE object are compared in
    // every order: stream then map, the warm stream against that map, a second map against the first stream, and
    // map first then stream.
    let mut one_object = false;
    if spec.any(&|s| matches!(s, Spec::Cached(_))) && !spec.cached_under_replace() {
      one_object = true;
      for columns in [true, false] {
        let o = opts(columns, false);
        let obj = build(spec);
        let st1 = guard(|| crate::observe::stream(&*obj, &o)).map_err(|p| format!("one object, columns={columns}: stream: {p}"))?;
        let m1 = guard(|| obj.map(&o)).map_err(|p| format!("one object, columns={columns}: map(): {p}"))?;
        k1 |= agree(spec, &text, &st1, m1.as_ref(), columns, "one object, cold stream then map(): ")?;
        let st2 = guard(|| crate::observe::stream(&*obj, &o)).map_err(|p| format!("one object, columns={columns}: warm stream: {p}"))?;
        k1 |= agree(spec, &text, &st2, m1.as_ref(), columns, "one object, warm stream against the earlier map(): ")?;
        let m2 = guard(|| obj.map(&o)).map_err(|p| format!("one object, columns={columns}: second map(): {p}"))?;
        k1 |= agree(spec, &text, &st1, m2.as_ref(), columns, "one object, cold stream against the second map(): ")?;
        let obj = build(spec);
        let m0 = guard(|| obj.map(&o)).map_err(|p| format!("one object, columns={columns}: map() first: {p}"))?;
        let st0 = guard(|| crate::observe::stream(&*obj, &o)).map_err(|p| format!("one object, columns={columns}: stream after map(): {p}"))?;
        k1 |= agree(spec, &text, &st0, m0.as_ref(), columns, "one object, map() then stream: ")?;
        // the other column setting asked in between must not leak into this one
        let obj = build(spec);
        let _ = guard(|| obj.map(&opts(!columns, false)));
        let st3 = guard(|| crate::observe::stream(&*obj, &o)).map_err(|p| format!("one object, columns={columns}: stream after map(other setting): {p}"))?;
        let m3 = guard(|| obj.map(&o)).map_err(|p| format!("one object, columns={columns}: map() after map(other setting): {p}"))?;
        k1 |= agree(spec, &text, &st3, m3.as_ref(), columns, "one object, map(other column setting), stream, map(): ")?;
      }
    }
    let mut info = CaseInfo::nt(nt).class(one_object, "one object asked for stream and map in every order");
    info.excluded_known = k1;
    tree_classes(spec, &mut info);
    Ok(info)
  }
}

/// the normal-mode stream `st` and `map` (both answers for `columns`) attribute every byte / line of `text` alike and
/// agree on whether anything is mapped; Ok(true) = they disagree only in the way known finding K1 describes
fn agree(
  spec: &Spec,
  text: &str,
  st: &crate::observe::Stream,
  map: Option<&rspack_sources::SourceMap>,
  columns: bool,
  label: &str,
) -> Result<bool, String> {
  let (pos, _) = positions(text);
  let (stext, sat) = st.attr();
  if stext != text {
    return Err(format!("{label}columns={columns}: stream reassembles to {stext:?}, reference text is {text:?}"));
  }
  let mat = attr_from_map(map, text, columns)?;
  let mappings = map.map(|m| m.mappings().to_string());
  if columns {
    for i in 0..text.len() {
      let (m, s) = (strip(&mat[i]), strip(&sat[i]));
      if m != s {
        return Err(format!(
          "{label}columns=true: byte {i} ({}:{}) of {text:?}: map() resolves to {m:?}, the covering chunk says {s:?}; mappings={mappings:?} sources={:?}",
          pos[i].0, pos[i].1, map.map(|m| m.sources().to_vec())
        ));
      }
    }
  } else {
    let la = st.line_attr();
    let mut last = 0;
    for i in 0..text.len() {
      let l = pos[i].0;
      if l == last {
        continue;
      }
      last = l;
      let want = la.get(&l).map(|a| (a.0.clone(), a.2));
      let got = mat[i].clone().map(|a| (a.0, a.2));
      if want != got {
        return Err(format!(
          "{label}columns=false: output line {l} of {text:?}: map() resolves to {got:?}, the first mapped chunk starting on that line says {want:?}; mappings={mappings:?}"
        ));
      }
    }
  }
  // no map <=> no mapped chunk
  if map.is_some() != st.any_mapped() {
    if passthrough_sms(spec) && map.is_some() && !crate::known::strict() {
      return Ok(true); // known finding K1
    }
    return Err(format!(
      "{label}columns={columns}: map() is {} although the chunk stream has {} mapped chunk; mappings={mappings:?}",
      if map.is_some() { "Some" } else { "None" },
      if st.any_mapped() { "a" } else { "no" }
    ));
  }
  Ok(false)
}
