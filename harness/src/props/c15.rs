//! C15 SourceMap JSON serialisation is valid and round-trips

use proptest::collection::vec;
use proptest::prelude::*;
use rspack_sources::SourceMap;
use serde::{Deserialize, Serialize};

use crate::observe::guard;
use crate::runner::*;

pub struct C15;

#[derive(Clone, Debug, Serialize, Deserialize, PartialEq)]
pub struct Fields {
  pub mappings: String,
  pub sources: Vec<String>,
  pub contents: Vec<String>,
  pub names: Vec<String>,
  pub file: Option<String>,
  pub root: Option<String>,
  pub debug_id: Option<String>,
}

/// an array entry / optional string in a hand-written document
#[derive(Clone, Debug, Serialize, Deserialize, PartialEq)]
pub enum Entry {
  Null,
  Str(String),
}

#[derive(Clone, Debug, Serialize, Deserialize)]
pub enum Case {
  Value(Fields),
  /// a large value: `piece` repeated until field number `field` has about `target` bytes
  /// (document sizes around buffer-size boundaries: 4 KiB ... 1 MiB)
  Large { piece: String, target: u32, field: u8, small: Fields },
  /// a document written by the harness: which keys are present, in which order, how strings are escaped
  Doc {
    mappings: String,
    sources: Option<Vec<Entry>>,
    contents: Option<Vec<Entry>>,
    names: Option<Vec<Entry>>,
    file: Option<Entry>,
    root: Option<Entry>,
    debug_id: Option<Entry>,
    version: Option<u8>,
    extra_key: bool,
    order: Vec<u8>,
    escape_style: u8,
    spaces: bool,
    /// bit k set and array k (sources, sourcesContent, names) absent: the key is written with the value
    /// `null` instead of being left out
    #[serde(default)]
    null_arrays: u8,
  },
}

const PIECES: &[&str] = &[
  "a", "\"", "\\", "\n", "\t", "\r", "\u{0}", "\u{1}", "\u{1f}", "\u{7f}", "\u{2028}", "\u{2029}", "é", "日", "😀", "\u{10ffff}", "/", "</script>", "\u{8}", "\u{c}", " ", "x.js", "\u{feff}", "\\u0041", "'", "./", "../", "src/", "webpack:///", "//", ".",
  // words of the format itself and JSON literals as *values* (a parser that sniffs the text for a key, or a writer that
  // special-cases a literal, meets them only here), alone and as a quoted key
  "sections", "version", "sources", "sourcesContent", "names", "mappings", "file", "sourceRoot", "debugId", "ignoreList",
  "x_google_ignoreList", "null", "true", "false", "3", "{", "}", "[", "]", ":", ",", "\"sections\":", "\"version\":3",
];

/// whole values in the shapes other tools write into these fields (a reader or writer that normalises "what this
/// obviously is" meets them only here): identifiers, URLs, paths, numbers and dates as strings
const SHAPED: &[&str] = &[
  "85314830-023F-4CF1-A267-535F4E37BB17", "85314830-023f-4cf1-a267-535f4e37bb17", "85314830023F4CF1A267535F4E37BB17", "{85314830-023F-4CF1-A267-535F4E37BB17}",
  "00000000-0000-0000-0000-000000000000", "FFFFFFFF-FFFF-FFFF-FFFF-FFFFFFFFFFFF", "urn:uuid:85314830-023F-4CF1-A267-535F4E37BB17",
  "webpack:///./src/index.js", "webpack://app/./a.js?1234", "file:///C:/Users/x/a.js", "C:\\Users\\x\\a.js", "\\\\server\\share\\a.js", "http://a.b/c.js?x=1&y=2#frag",
  "HTTP://A.B/C.JS", "data:application/json;base64,eyJ2ZXJzaW9uIjozfQ==", "/abs/path/a.js", "~/a.js", "a.js.map", "A.JS", "a%20b.js", "a+b.js",
  "0", "-1", "3", "1e3", "0x10", "1.0", "NaN", "2026-09-29T00:00:00Z", "undefined", "[object Object]", "__proto__", "constructor",
];

pub fn wild_string() -> BoxedStrategy<String> {
  prop_oneof![
    10 => vec(any::<u16>(), 0..=6).prop_map(|v| v.into_iter().map(|s| PIECES[crate::gen::idx(s, PIECES.len())]).collect::<String>()),
    1 => (0..SHAPED.len()).prop_map(|i| SHAPED[i].to_string()),
    // a shaped value with one character replaced by a letter or digit outside ASCII (same length in characters, not in
    // bytes; still "alphanumeric" to a Unicode-aware test), by a character that changes length under case mapping, or by an emoji
    1 => (0..SHAPED.len(), any::<u16>(), 0..TWISTS.len()).prop_map(|(i, pos, t)| {
      let mut cs: Vec<String> = SHAPED[i].chars().map(|c| c.to_string()).collect();
      let k = crate::gen::idx(pos, cs.len());
      cs[k] = TWISTS[t].to_string();
      cs.concat()
    }),
  ]
  .boxed()
}

const TWISTS: &[&str] = &["é", "ß", "日", "٣", "İ", "ǅ", "😀", "\u{0301}", "Ａ"];

fn strings(max: usize) -> BoxedStrategy<Vec<String>> {
  vec(prop_oneof![1 => Just(String::new()), 4 => wild_string()], 0..=max).boxed()
}

fn mappings_string() -> BoxedStrategy<String> {
  prop_oneof![
    3 => vec(any::<u16>(), 0..=12).prop_map(|v| v.into_iter().map(|s| ["A", "C", "D", "g", ",", ";", "/", "+", "9"][crate::gen::idx(s, 9)]).collect::<String>()),
    1 => wild_string(),
  ]
  .boxed()
}

fn value_strategy() -> BoxedStrategy<Case> {
  (
    mappings_string(),
    strings(3),
    prop_oneof![1 => Just(vec![]), 1 => vec(Just(String::new()), 0..=3), 3 => strings(3)],
    strings(3),
    proptest::option::of(wild_string()),
    proptest::option::of(wild_string()),
    proptest::option::of(wild_string()),
  )
    .prop_map(|(mappings, sources, contents, names, file, root, debug_id)| Case::Value(Fields { mappings, sources, contents, names, file, root, debug_id }))
    .boxed()
}

fn large_strategy() -> BoxedStrategy<Case> {
  (wild_string(), 12u32..=20u32, -40i32..=40i32, 0u8..4u8, value_strategy())
    .prop_map(|(piece, pow, delta, field, small)| {
      let piece = if piece.is_empty() { "a;b\n".to_string() } else { piece };
      let target = ((1i64 << pow) + delta as i64).max(16) as u32;
      let small = match small {
        Case::Value(f) => f,
        _ => unreachable!(),
      };
      Case::Large { piece, target, field, small }
    })
    .boxed()
}

fn entry() -> BoxedStrategy<Entry> {
  prop_oneof![1 => Just(Entry::Null), 4 => wild_string().prop_map(Entry::Str)].boxed()
}

fn doc_strategy() -> BoxedStrategy<Case> {
  (
    (mappings_string(), proptest::option::weighted(0.8, vec(entry(), 0..=3)), proptest::option::weighted(0.7, vec(entry(), 0..=3)), proptest::option::weighted(0.8, vec(entry(), 0..=3))),
    (proptest::option::of(entry()), proptest::option::of(entry()), proptest::option::of(entry())),
    (proptest::option::of(0u8..5u8), any::<bool>(), vec(any::<u8>(), 9), 0u8..4u8, any::<bool>(), prop_oneof![3 => Just(0u8), 1 => 0u8..8u8]),
  )
    .prop_map(|((mappings, sources, contents, names), (file, root, debug_id), (version, extra_key, order, escape_style, spaces, null_arrays))| Case::Doc {
      mappings,
      sources,
      contents,
      names,
      file,
      root,
      debug_id,
      version,
      extra_key,
      order,
      escape_style,
      spaces,
      null_arrays,
    })
    .boxed()
}

/// independent JSON string writer; `style`: 0 = minimal escapes, 1 = \uXXXX for every non-ASCII char
/// (surrogate pairs for astral ones), 2 = \uXXXX for everything, 3 = mixed
fn write_json_string(out: &mut String, s: &str, style: u8) {
  out.push('"');
  for (i, ch) in s.chars().enumerate() {
    let esc_all = style == 2 || (style == 3 && i % 2 == 0);
    let esc_nonascii = style == 1 || esc_all;
    match ch {
      '"' if !esc_all => out.push_str("\\\""),
      '\\' if !esc_all => out.push_str("\\\\"),
      '\n' if !esc_all => out.push_str("\\n"),
      '\r' if !esc_all => out.push_str("\\r"),
      '\t' if !esc_all => out.push_str("\\t"),
      '\u{8}' if !esc_all => out.push_str("\\b"),
      '\u{c}' if !esc_all => out.push_str("\\f"),
      '/' if style == 3 => out.push_str("\\/"),
      c if (c as u32) < 0x20 || esc_all || (esc_nonascii && !c.is_ascii()) => {
        let mut buf = [0u16; 2];
        for u in c.encode_utf16(&mut buf) {
          out.push_str(&format!("\\u{:04x}", u));
        }
      }
      c => out.push(c),
    }
  }
  out.push('"');
}

fn write_entry(out: &mut String, e: &Entry, style: u8) {
  match e {
    Entry::Null => out.push_str("null"),
    Entry::Str(s) => write_json_string(out, s, style),
  }
}

fn write_array(out: &mut String, v: &[Entry], style: u8, spaces: bool) {
  out.push('[');
  for (i, e) in v.iter().enumerate() {
    if i > 0 {
      out.push(',');
      if spaces {
        out.push(' ');
      }
    }
    write_entry(out, e, style);
  }
  out.push(']');
}

fn plain(e: &Entry) -> String {
  match e {
    Entry::Null => String::new(),
    Entry::Str(s) => s.clone(),
  }
}

fn fields_of(m: &SourceMap) -> Fields {
  // the lists are read through the indexed getters and cross-checked with the slice getters (a
  // disagreement shows up as an extra marker entry, which no expected value contains)
  fn via_index<'a>(slice: &'a [String], get: impl Fn(usize) -> Option<&'a str>) -> Vec<String> {
    let mut v: Vec<String> = (0..).map_while(|i| get(i)).map(|s| s.to_string()).collect();
    if v != slice || get(slice.len()).is_some() || get(usize::MAX).is_some() {
      v.push("<indexed getter disagrees with the slice getter>".into());
    }
    v
  }
  Fields {
    mappings: m.mappings().to_string(),
    sources: via_index(m.sources(), |i| m.get_source(i)),
    contents: via_index(m.sources_content(), |i| m.get_source_content(i)),
    names: via_index(m.names(), |i| m.get_name(i)),
    file: m.file().map(|s| s.to_string()),
    root: m.source_root().map(|s| s.to_string()),
    debug_id: m.get_debug_id().map(|s| s.to_string()),
  }
}

fn parse3(doc: &str) -> Result<Result<Fields, String>, String> {
  let a = SourceMap::from_json(doc).map(|m| fields_of(&m)).map_err(|e| e.to_string());
  let b = SourceMap::from_slice(doc.as_bytes()).map(|m| fields_of(&m)).map_err(|e| e.to_string());
  let c = SourceMap::from_reader(doc.as_bytes()).map(|m| fields_of(&m)).map_err(|e| e.to_string());
  // readers that hand the document over in short reads (as pipes and chained readers do) must read the same
  struct Chunked<'a>(&'a [u8], usize);
  impl std::io::Read for Chunked<'_> {
    fn read(&mut self, buf: &mut [u8]) -> std::io::Result<usize> {
      let n = buf.len().min(self.1).min(self.0.len());
      buf[..n].copy_from_slice(&self.0[..n]);
      self.0 = &self.0[n..];
      Ok(n)
    }
  }
  for step in [1usize, 7, 4096, 65_535] {
    if step == 1 && doc.len() > 4096 {
      continue;
    }
    let r = SourceMap::from_reader(Chunked(doc.as_bytes(), step)).map(|m| fields_of(&m)).map_err(|e| e.to_string());
    if r.is_ok() != c.is_ok() || (r.is_ok() && r != c) {
      return Err(format!(
        "from_reader over a reader that hands out at most {step} byte(s) per call answers {} for a document of {} bytes, over a slice it answers {}",
        if r.is_ok() { "Ok" } else { "Err" },
        doc.len(),
        if c.is_ok() { "Ok" } else { "Err" }
      ));
    }
  }
  match (&a, &b, &c) {
    (Ok(x), Ok(y), Ok(z)) if x == y && y == z => Ok(a),
    (Err(_), Err(_), Err(_)) => Ok(a),
    _ => {
      let short = |r: &Result<Fields, String>| match r {
        Ok(_) => "Ok".to_string(),
        Err(e) => format!("Err({})", e.chars().take(120).collect::<String>()),
      };
      Err(format!(
        "from_json / from_slice / from_reader disagree on a document of {} bytes starting {:?}: {} / {} / {}",
        doc.len(),
        doc.chars().take(200).collect::<String>(),
        short(&a),
        short(&b),
        short(&c)
      ))
    }
  }
}

fn needs_escape(s: &str) -> bool {
  s.chars().any(|c| c == '"' || c == '\\' || (c as u32) < 0x20 || c == '\u{2028}' || c == '\u{2029}' || c == '\u{7f}')
}

impl Prop for C15 {
  type Case = Case;
  const ID: &'static str = "C15";
  fn rule(&self) -> String {
    "leg 1: SourceMap values whose strings are built from quotes, backslashes, control characters, U+2028/2029, DEL, BOM, \
     astral characters, '</script>' and the empty string, every optional field present or absent, sourcesContent absent / \
     all-empty / mixed; leg 1b: large values (one field of 4 KiB - 1 MiB, sizes within +-40 bytes of a power of two); leg 2: documents written by the harness's own JSON writer with keys in random order, null entries, null in place of a whole array (read like a missing one), \
     missing arrays, four escaping styles (incl. \\uXXXX surrogate pairs), unknown extra keys, any version. Oracle: \
     serde_json (independent of simd-json) as reference parser. Non-trivial: a string that needs an escape, or (leg 2) a \
     null entry / missing array; distinct by hash of the case JSON".into()
  }
  fn legs(&self, _tier: Tier) -> Vec<Leg<Case>> {
    vec![
      Leg { name: "values", source: Cases::Generated(Box::new(value_strategy), 300_000, 4_000_000) },
      Leg { name: "documents", source: Cases::Generated(Box::new(doc_strategy), 300_000, 4_000_000) },
      Leg { name: "large values (4 KiB - 1 MiB, sizes around powers of two)", source: Cases::Generated(Box::new(large_strategy), 600, 12_000) },
    ]
  }
  fn stages(&self, ctx: &Ctx) -> Vec<Stage> {
    if ctx.tier == Tier::Thorough {
      crate::fuzz::campaigns("C15", &["json"], ctx)
    } else {
      vec![]
    }
  }
  fn check(&self, case: &Case) -> CheckResult {
    let r = guard(|| -> Result<CaseInfo, String> {
      match case {
        Case::Value(f) => check_value(f),
        Case::Large { piece, target, field, small } => {
          let mut big = String::with_capacity(*target as usize + piece.len());
          while big.len() < *target as usize {
            big.push_str(piece);
          }
          let mut f = small.clone();
          match field {
            0 => f.mappings = big.chars().filter(|c| c.is_ascii_alphanumeric() || *c == ';' || *c == ',').collect::<String>() + "AAAA",
            1 => f.contents = vec![big],
            2 => f.sources = vec![big],
            _ => {
              f.names = (0..(*target / 8).max(1)).map(|i| format!("n{i}")).collect();
            }
          }
          let r = check_value(&f)?;
          Ok(CaseInfo::nt(true).class(true, "large value").class(r.nontrivial, "large value with escapes"))
        }
        Case::Doc { mappings, sources, contents, names, file, root, debug_id, version, extra_key, order, escape_style, spaces, null_arrays } => {
          // assemble key/value pairs
          let mut kv: Vec<(String, String)> = vec![];
          let style = *escape_style;
          let s = |e: &Entry| {
            let mut o = String::new();
            write_entry(&mut o, e, style);
            o
          };
          let a = |v: &Vec<Entry>| {
            let mut o = String::new();
            write_array(&mut o, v, style, *spaces);
            o
          };
          let mut ms = String::new();
          write_json_string(&mut ms, mappings, style);
          kv.push(("mappings".into(), ms));
          let mut null_array = false;
          for (k, (key, v)) in [("sources", sources), ("sourcesContent", contents), ("names", names)].into_iter().enumerate() {
            match v {
              Some(v) => kv.push((key.into(), a(v))),
              None if null_arrays & (1 << k) != 0 => {
                null_array = true;
                kv.push((key.into(), "null".into()));
              }
              None => {}
            }
          }
          if let Some(e) = file {
            kv.push(("file".into(), s(e)));
          }
          if let Some(e) = root {
            kv.push(("sourceRoot".into(), s(e)));
          }
          if let Some(e) = debug_id {
            kv.push(("debugId".into(), s(e)));
          }
          if let Some(v) = version {
            kv.push(("version".into(), v.to_string()));
          }
          if *extra_key {
            kv.push(("x_google_ignoreList".into(), "[0, {\"a\": [null, 1.5e3, true]}]".into()));
          }
          // reorder deterministically by the generated keys
          let mut keyed: Vec<(u8, (String, String))> = kv.into_iter().enumerate().map(|(i, p)| (order.get(i).copied().unwrap_or(0), p)).collect();
          keyed.sort_by_key(|x| x.0);
          let mut doc = String::from("{");
          for (i, (_, (k, v))) in keyed.iter().enumerate() {
            if i > 0 {
              doc.push(',');
            }
            if *spaces {
              doc.push_str("\n  ");
            }
            doc.push_str(&format!("\"{k}\":"));
            if *spaces {
              doc.push(' ');
            }
            doc.push_str(v);
          }
          if *spaces {
            doc.push('\n');
          }
          doc.push('}');
          // reference reading
          let rv: serde_json::Value = serde_json::from_str(&doc).map_err(|e| format!("harness: serde_json rejects the harness's own document {doc:?}: {e}"))?;
          let rarr = |k: &str| -> Vec<String> {
            rv.get(k).and_then(|a| a.as_array()).map(|a| a.iter().map(|x| x.as_str().unwrap_or("").to_string()).collect()).unwrap_or_default()
          };
          let rst = |k: &str| -> Option<String> { rv.get(k).and_then(|x| x.as_str()).map(|s| s.to_string()) };
          let want = Fields {
            mappings: rst("mappings").unwrap_or_default(),
            sources: rarr("sources"),
            contents: rarr("sourcesContent"),
            names: rarr("names"),
            file: rst("file"),
            root: rst("sourceRoot"),
            debug_id: rst("debugId"),
          };
          // the harness's own expectation must agree with serde_json's reading
          let mine = Fields {
            mappings: mappings.clone(),
            sources: sources.as_ref().map(|v| v.iter().map(plain).collect()).unwrap_or_default(),
            contents: contents.as_ref().map(|v| v.iter().map(plain).collect()).unwrap_or_default(),
            names: names.as_ref().map(|v| v.iter().map(plain).collect()).unwrap_or_default(),
            file: file.as_ref().and_then(|e| if let Entry::Str(s) = e { Some(s.clone()) } else { None }),
            root: root.as_ref().and_then(|e| if let Entry::Str(s) = e { Some(s.clone()) } else { None }),
            debug_id: debug_id.as_ref().and_then(|e| if let Entry::Str(s) = e { Some(s.clone()) } else { None }),
          };
          if mine != want {
            return Err(format!("harness: writer and serde_json disagree on {doc:?}: {mine:?} vs {want:?}"));
          }
          let got = parse3(&doc)?.map_err(|e| format!("a well-formed source map document is rejected: {doc:?}: {e}"))?;
          if got != want {
            return Err(format!("parsing {doc:?} gives {got:?}; an independent parser reads {want:?} (null entries read as empty strings)"));
          }
          let has_null = [sources, contents, names].iter().any(|v| v.as_ref().is_some_and(|v| v.contains(&Entry::Null)));
          let missing = sources.is_none() || contents.is_none() || names.is_none();
          Ok(
            CaseInfo::nt(has_null || missing || needs_escape(mappings))
              .class(has_null, "null entry in an array")
              .class(missing, "missing array")
              .class(null_array, "null in place of a whole array")
              .class(matches!(file, Some(Entry::Null)) || matches!(root, Some(Entry::Null)) || matches!(debug_id, Some(Entry::Null)), "null optional string")
              .class(*extra_key, "unknown extra key")
              .class(style > 0, "\\uXXXX escapes"),
          )
        }
      }
    });
    match r {
      Err(p) => Err(p),
      Ok(x) => x,
    }
  }
}


fn check_value(f: &Fields) -> CheckResult {
  // call history: now and then the parsers see rejected documents first (state must not leak
  // from a failed parse into the next one on the same thread)
  if f.mappings.len() % 2 == 0 {
    let a = SourceMap::from_json("{\"mappings\":");
    let b = SourceMap::from_slice(b"[1,2");
    let c = SourceMap::from_reader(&b"{\"mappings\":nul"[..]);
    let d = SourceMap::from_slice(b"{\"names\":[]}");
    if a.is_ok() || b.is_ok() || c.is_ok() || d.is_ok() {
      return Err("a malformed document (or one without mappings) was accepted".into());
    }
  }
      let mut m = SourceMap::new(f.mappings.clone(), f.sources.clone(), f.contents.clone(), f.names.clone());
      m.set_file(f.file.clone());
      m.set_source_root(f.root.clone());
      m.set_debug_id(f.debug_id.clone());
      let j = m.clone().to_json().map_err(|e| format!("to_json failed: {e}"))?;
      let mut w = vec![];
      m.clone().to_writer(&mut w).map_err(|e| format!("to_writer failed: {e}"))?;
      if w != j.as_bytes() {
        return Err(format!("to_writer wrote {:?}, to_json gave {j:?}", String::from_utf8_lossy(&w)));
      }
      // a writer that takes at most a few bytes per call (as pipes and sockets may): still every byte
      struct Short(Vec<u8>, usize);
      impl std::io::Write for Short {
        fn write(&mut self, buf: &[u8]) -> std::io::Result<usize> {
          let n = buf.len().min(self.1);
          self.0.extend_from_slice(&buf[..n]);
          Ok(n)
        }
        fn flush(&mut self) -> std::io::Result<()> {
          Ok(())
        }
      }
      for cap in [1usize, 7, 4096] {
        let mut sw = Short(vec![], cap);
        m.clone().to_writer(&mut sw).map_err(|e| format!("to_writer into a writer taking {cap} byte(s) per call failed: {e}"))?;
        if sw.0 != j.as_bytes() {
          return Err(format!("to_writer into a writer that takes at most {cap} byte(s) per call delivered {} of {} bytes: {:?}", sw.0.len(), j.len(), String::from_utf8_lossy(&sw.0[..sw.0.len().min(200)])));
        }
      }
      // a value that has been serialised (and formatted) before keeps following its setters
      {
        let mut h = m.clone();
        let _ = h.clone().to_json();
        let _ = format!("{h:?}");
        let mut want = f.clone();
        let which = (f.mappings.len() + f.sources.len() * 3 + f.names.len() * 5) % 6;
        match which {
          0 => {
            want.debug_id = Some("set-later".into());
            h.set_debug_id(Some("set-later"));
          }
          1 => {
            want.file = Some("later.js".into());
            h.set_file(Some("later.js"));
          }
          2 => {
            want.root = Some("later/root".into());
            h.set_source_root(Some("later/root"));
          }
          3 => {
            want.names.push("later".into());
            h.set_names(want.names.clone());
          }
          4 => {
            want.sources.push("later.js".into());
            h.set_sources(want.sources.clone());
          }
          _ => {
            want.contents.push("later content".into());
            h.set_sources_content(want.contents.clone());
          }
        }
        let j2 = h.clone().to_json().map_err(|e| format!("to_json after a setter failed: {e}"))?;
        let mut w2 = vec![];
        h.clone().to_writer(&mut w2).map_err(|e| format!("to_writer after a setter failed: {e}"))?;
        if w2 != j2.as_bytes() {
          return Err("to_writer and to_json disagree after a setter was called on an already serialised value".into());
        }
        let back = parse3(&j2)?.map_err(|e| format!("the document written after a setter is rejected: {e}"))?;
        let mut want_back = want.clone();
        if want_back.contents.iter().all(|c| c.is_empty()) {
          want_back.contents.clear();
        }
        if back != want_back {
          return Err(format!("a value serialised, then changed by setter #{which}, then serialised again reads back as {back:?}, expected {want_back:?}"));
        }
      }
      let v: serde_json::Value = serde_json::from_str(&j).map_err(|e| format!("an independent JSON parser rejects to_json() output {j:?}: {e}"))?;
      let obj = v.as_object().ok_or("to_json() is not an object")?;
      if obj.get("version") != Some(&serde_json::json!(3)) {
        return Err(format!("version is {:?}", obj.get("version")));
      }
      let arr = |k: &str| -> Option<Vec<String>> {
        obj.get(k).and_then(|a| a.as_array()).map(|a| a.iter().map(|x| x.as_str().unwrap_or("<non-string>").to_string()).collect())
      };
      let st = |k: &str| -> Option<String> { obj.get(k).and_then(|x| x.as_str()).map(|s| s.to_string()) };
      if st("mappings").as_ref() != Some(&f.mappings) || arr("sources").as_ref() != Some(&f.sources) || arr("names").as_ref() != Some(&f.names) {
        return Err(format!("to_json() {j:?} does not carry the same mappings/sources/names as the value {f:?}"));
      }
      if st("file") != f.file || st("sourceRoot") != f.root || st("debugId") != f.debug_id {
        return Err(format!("to_json() {j:?} does not carry the same file/sourceRoot/debugId as the value {f:?}"));
      }
      let all_empty = f.contents.iter().all(|s| s.is_empty());
      match arr("sourcesContent") {
        None if all_empty => {}
        Some(c) if !all_empty && c == f.contents => {}
        other => return Err(format!("sourcesContent in {j:?} is {other:?}; the value has {:?} (must be omitted exactly when all entries are empty)", f.contents)),
      }
      let known = ["version", "file", "sources", "sourcesContent", "names", "mappings", "sourceRoot", "debugId"];
      if let Some(k) = obj.keys().find(|k| !known.contains(&k.as_str())) {
        return Err(format!("unexpected key {k:?} in {j:?}"));
      }
      // back
      let back = parse3(&j)?.map_err(|e| format!("to_json() output {j:?} is rejected by the crate's own parsers: {e}"))?;
      let mut want = f.clone();
      if all_empty {
        want.contents = vec![];
      }
      if back != want {
        return Err(format!("round trip through {j:?} gives {back:?}, expected {want:?}"));
      }
      let esc = needs_escape(&f.mappings) || f.sources.iter().chain(&f.contents).chain(&f.names).chain(f.file.iter()).chain(f.root.iter()).chain(f.debug_id.iter()).any(|s| needs_escape(s));
      Ok(CaseInfo::nt(esc).class(all_empty && !f.contents.is_empty(), "sourcesContent present but all empty").class(f.debug_id.is_some(), "debugId present"))
    }

/// used by the `json` fuzz target: does an independent parser accept the document?
pub fn independent_parse_ok(j: &str) -> Result<(), ()> {
  serde_json::from_str::<serde_json::Value>(j).map(|_| ()).map_err(|_| ())
}
