//! C17 No input in the documented domain makes the library panic or hang

use proptest::collection::vec;
use proptest::prelude::*;
use rspack_sources::{Source, SourceMap};
use serde::{Deserialize, Serialize};

use crate::build::build;
use crate::gen::{idx, tree, GenCfg};
use crate::lib_or_known;
use crate::observe::{guard, opts, stream};
use crate::props::c05::hash_of;
use crate::props::common::*;
use crate::runner::*;
use crate::spec::Spec;

pub struct C17;

#[derive(Clone, Debug, Serialize, Deserialize)]
pub enum Case {
  /// a mappings string for decode_mappings / decoded_mappings
  Mappings(String),
  /// bytes for from_json / from_slice / from_reader
  Json(Vec<u8>),
  /// a wild source tree: every Source method and chunk streaming
  Tree(Spec),
}

const TOK: &[&str] = &[
  "A", "C", "D", "E", "g", "h", "/", "+", "9", "w", ",", ";", ";;", "AAAA", "AACA", "gB", "!", " ", "é", "\n", "=", "\u{0}", "→", "€", "日", "😀", "\u{100}", "\u{ff}",
];

fn mappings_strategy() -> BoxedStrategy<Case> {
  prop_oneof![
    80 => short_mappings(),
    // very long runs of empty lines / empty segments (a bundle with a big unmapped prefix): anything that
    // spends stack or quadratic time per separator shows here
    1 => (1_000usize..150_000, any::<bool>(), any::<u16>()).prop_map(|(n, semi, k)| {
      let pre = ["", "AAAA", "AAAA,CAAC", ";A"][idx(k, 4)];
      Case::Mappings(format!("{pre}{}AACA;AAAA", if semi { ";" } else { "," }.repeat(n)))
    }),
  ]
  .boxed()
}

fn short_mappings() -> BoxedStrategy<Case> {
  vec(
    prop_oneof![
      8 => any::<u16>().prop_map(|s| TOK[idx(s, TOK.len())].to_string()),
      // long continuation runs ('g' = continuation with data 0, '/' = continuation with data 31)
      // the first digit carries the sign: '/' and 'h' negative, '+' and 'g' positive
      1 => (1usize..40, any::<bool>(), any::<u16>()).prop_map(|(n, hi, end)| {
        format!("{}{}{}", ["/", "+", "g", "h"][(end & 3) as usize], if hi { "/" } else { "g" }.repeat(n - 1), ["A", "B", "D", "f", "P"][idx(end, 5)])
      }),
      // one segment with very many fields (only five mean anything)
      1 => (1usize..700, any::<u16>()).prop_map(|(n, k)| ["A", "C", "D"][idx(k, 3)].repeat(n)),
      // huge deltas
      1 => (0u64..u64::MAX, any::<bool>()).prop_map(|(v, neg)| {
        let mut s = String::new();
        let mut n: u128 = ((v as u128) << 1) | neg as u128;
        loop {
          let d = (n & 31) as u8;
          n >>= 5;
          s.push(crate::model::vlq::B64[(if n > 0 { d | 32 } else { d }) as usize] as char);
          if n == 0 { break; }
        }
        s
      }),
    ],
    0..=14,
  )
  .prop_map(|v| Case::Mappings(v.concat()))
  .boxed()
}

pub const JSON_SEEDS: &[&str] = &[
  r#"{"version":3,"sources":["a","b"],"sourcesContent":["x\ny",null],"names":["n"],"mappings":"AAAA;AACA","file":"f","sourceRoot":"r","debugId":"d"}"#,
  r#"{"mappings":"AAAA","sources":[null,"a"],"names":[null],"sourcesContent":[null]}"#,
  r#"{"version":3,"mappings":""}"#,
  r#"{"names":[],"mappings":"A","version":3,"sources":[]}"#,
  r#"{}"#,
  r#"{"mappings":null}"#,
  r#"[1,2"#,
  "",
  r#"{"mappings":"😀 ","x":[{"y":1e999}]}"#,
];

fn json_strategy() -> BoxedStrategy<Case> {
  prop_oneof![
    // byte-level mutations of valid and nearly valid documents
    6 => (0..JSON_SEEDS.len(), vec((any::<u16>(), 0u8..5u8, any::<u8>()), 0..=5)).prop_map(|(k, muts)| {
      let mut v = JSON_SEEDS[k].as_bytes().to_vec();
      for (pos, kind, byte) in muts {
        if v.is_empty() {
          v.push(byte);
          continue;
        }
        let i = idx(pos, v.len());
        match kind {
          0 => v[i] = byte,
          1 => { v.remove(i); }
          2 => v.insert(i, byte),
          3 => v.truncate(i.max(1)),
          _ => {
            let c = v[i];
            v.insert(i, c);
          }
        }
      }
      Case::Json(v)
    }),
    1 => vec(any::<u8>(), 0..=40).prop_map(Case::Json),
    // what surrounds a source map in the wild, around (part of) a document: the XSSI guard, byte-order marks, the
    // sourceMappingURL comment, a data: URL head, blank bytes - with and without the line break that normally follows
    2 => (0..JSON_SEEDS.len(), any::<u16>(), vec((0u8..12u8, any::<bool>()), 1..=3), proptest::option::weighted(0.3, 0u8..12u8)).prop_map(|(k, cut, pre, post)| {
      const FRAMES: &[&[u8]] = &[b")]}'", b")]}", b")]}',", b"\xef\xbb\xbf", b"\xff\xfe", b"\xfe\xff", b"//# sourceMappingURL=", b"/*# sourceMappingURL=", b"data:application/json;base64,", b" \t", b"\r", b"\0"];
      let mut v = vec![];
      for (f, nl) in pre {
        v.extend_from_slice(FRAMES[f as usize]);
        if nl {
          v.push(b'\n');
        }
      }
      let doc = JSON_SEEDS[k].as_bytes();
      // the whole document, a prefix of it, or nothing
      let take = match cut % 4 { 0 => 0, 1 => idx(cut, doc.len() + 1), _ => doc.len() };
      v.extend_from_slice(&doc[..take]);
      if let Some(f) = post {
        v.extend_from_slice(FRAMES[f as usize]);
      }
      Case::Json(v)
    }),
    // well-formed documents whose string fields hold hostile and *shaped* values (identifiers, URLs, paths as other tools
    // write them, also with one character outside ASCII): every one is inside the documented domain
    2 => (vec(crate::props::c15::wild_string(), 5..=5), 0u8..32u8).prop_map(|(v, present)| {
      let mut doc = serde_json::Map::new();
      doc.insert("version".into(), 3.into());
      doc.insert("mappings".into(), "AAAA".into());
      doc.insert("sources".into(), vec![v[0].clone()].into());
      if present & 1 != 0 { doc.insert("names".into(), vec![v[1].clone()].into()); }
      if present & 2 != 0 { doc.insert("file".into(), v[2].clone().into()); }
      if present & 4 != 0 { doc.insert("sourceRoot".into(), v[3].clone().into()); }
      if present & 24 != 0 { doc.insert("debugId".into(), v[4].clone().into()); }
      Case::Json(serde_json::to_vec(&serde_json::Value::Object(doc)).unwrap())
    }),
    // deep nesting and long strings
    1 => (1usize..2000, 0u8..4u8).prop_map(|(n, k)| Case::Json(match k {
      0 => "[".repeat(n).into_bytes(),
      1 => format!("{{\"mappings\":\"{}\"}}", "A".repeat(n)).into_bytes(),
      2 => format!("{{\"mappings\":\"\",\"x\":{}1{}}}", "[".repeat(n), "]".repeat(n)).into_bytes(),
      _ => format!("{{\"mappings\":\"\",\"names\":[{}null]}}", "null,".repeat(n)).into_bytes(),
    })),
  ]
  .boxed()
}

fn tree_strategy() -> BoxedStrategy<Case> {
  tree(GenCfg::wild()).prop_map(Case::Tree).boxed()
}

pub fn check_tree(spec: &Spec) -> CheckResult {
  let s = build(spec);
  lib_or_known!(spec, "source()", s.source().to_string());
  lib_or_known!(spec, "rope()", s.rope().to_string());
  lib_or_known!(spec, "buffer()", s.buffer().to_vec());
  lib_or_known!(spec, "size()", s.size());
  lib_or_known!(spec, "to_writer()", {
    let mut v = vec![];
    let _ = s.to_writer(&mut v);
  });
  lib_or_known!(spec, "hash", hash_of(&*s));
  lib_or_known!(spec, "Debug", format!("{s:?}"));
  lib_or_known!(spec, "clone + ==", {
    let c = s.clone();
    let _ = *c == *s;
    let d = dyn_clone::clone_box(&*s);
    let _ = *d == *s;
  });
  // Clone of the concrete types (a BoxSource clone only bumps a reference count): every ReplaceSource of the tree cloned
  // before anything observed it (its replacements are still pending, unsorted) and once more in the state "mutated,
  // observed, mutated again"; ConcatSource and CachedSource nodes cloned cold
  let mut nodes: Vec<&Spec> = vec![];
  spec.walk(&mut |n, _| nodes.push(n), 0);
  for n in nodes {
    match n {
      Spec::Replace { inner, repls } => {
        lib_or_known!(spec, "ReplaceSource::clone (never observed)", {
          let r = crate::build::build_replace(inner, repls);
          let c = r.clone();
          let _ = c == r;
          (c.source().len(), r.source().len(), hash_of(&c))
        });
        if let Some((last, head)) = repls.split_last() {
          lib_or_known!(spec, "ReplaceSource::clone (mutated, observed, mutated)", {
            let mut r = crate::build::build_replace(inner, head);
            let _ = r.source().len();
            crate::build::apply_repl(&mut r, last);
            let c = r.clone();
            let _ = c == r;
            (c.source().len(), c.map(&opts(true, false)).is_some())
          });
        }
      }
      Spec::Concat { how, children } => {
        lib_or_known!(spec, "ConcatSource::clone", {
          let r = crate::build::build_concat(*how, children);
          let c = r.clone();
          let _ = c == r;
          c.source().len()
        });
      }
      Spec::Cached(i) => {
        lib_or_known!(spec, "CachedSource::clone", {
          let r = rspack_sources::CachedSource::new(build(i));
          let c = r.clone();
          let _ = c == r;
          (c.source().len(), r.map(&opts(true, false)).is_some(), c.map(&opts(true, false)).is_some())
        });
      }
      _ => {}
    }
  }
  for columns in [true, false] {
    for final_source in [false, true] {
      lib_or_known!(spec, "stream_chunks", stream(&*s, &opts(columns, final_source)));
      // cold on a fresh object as well
      lib_or_known!(spec, "stream_chunks (fresh)", stream(&*build(spec), &opts(columns, final_source)));
    }
    lib_or_known!(spec, "map()", s.map(&opts(columns, false)));
    lib_or_known!(spec, "map() (fresh)", build(spec).map(&opts(columns, false)));
    if let Some(m) = lib_or_known!(spec, "map() again", s.map(&opts(columns, false))) {
      lib_or_known!(spec, "to_json of the produced map", m.to_json().map(|j| j.len()).unwrap_or(0));
    }
  }
  let wild_map = spec.any(&|n| match n {
    Spec::Sms { map, text, .. } | Spec::SmsInner { map, text, .. } => {
      let lines = text.matches('\n').count() as u32 + 1;
      map.segs.iter().any(|g| g.line > lines || g.orig.is_some_and(|o| o.src as usize >= map.sources.len() || o.name.is_some_and(|n| n as usize >= map.names.len())))
    }
    _ => false,
  });
  let composite_above = spec.any(&|n| !n.is_leaf() && n.has_sms());
  let mut info = CaseInfo::nt(wild_map && composite_above);
  tree_classes(spec, &mut info);
  Ok(info.class(wild_map, "wild map (segments / indices outside text / tables)"))
}

impl Prop for C17 {
  type Case = Case;
  const ID: &'static str = "C17";
  fn rule(&self) -> String {
    "leg a: strings over the base64 alphabet, separators and junk, with continuation runs of up to 40 digits and deltas \
     up to 2^64, fed to decode_mappings / decoded_mappings; leg b: byte-level mutations of valid and invalid source map \
     documents, random bytes, deep nesting, fed to from_json / from_slice / from_reader (which must also agree on \
     accept/reject); leg c: wild trees (gen::tree(wild): multi-byte text, replacement positions up to u32::MAX, sorted maps \
     with segments / source / name indices outside text / tables) on which every Source method, Debug, clone, ==, hash \
     and chunk streaming in all four modes is called; all legs run on the overflow-checked build and again on the \
     release-semantics build. Non-trivial: (a) a continuation run of >=7 digits or a delta >= 2^31, (b) a mutated or \
     random document, (c) a tree with a wild map and a composite above it; distinct by hash of the case JSON".into()
  }
  fn legs(&self, _tier: Tier) -> Vec<Leg<Case>> {
    vec![
      Leg { name: "a: mappings strings", source: Cases::Generated(Box::new(mappings_strategy), 500_000, 6_000_000) },
      Leg { name: "b: JSON bytes", source: Cases::Generated(Box::new(json_strategy), 300_000, 4_000_000) },
      Leg { name: "c: wild trees", source: Cases::Generated(Box::new(tree_strategy), 200_000, 3_000_000) },
      Leg { name: "d: SourceMapSource with a line longer than 64 KiB", source: Cases::Generated(Box::new(|| crate::gen::huge_line_tree().prop_map(Case::Tree).boxed()), 400, 6_000) },
    ]
  }
  fn stages(&self, ctx: &Ctx) -> Vec<Stage> {
    let mut v = vec![plain_stage("C17", ctx)];
    if ctx.tier == Tier::Thorough {
      v.extend(crate::fuzz::campaigns("C17", &["decode", "json", "tree_prog"], ctx));
    }
    v
  }
  fn check(&self, case: &Case) -> CheckResult {
    match case {
      Case::Mappings(s) => {
        let decode = || {
          let m = SourceMap::new(s.clone(), Vec::<String>::new(), Vec::<String>::new(), Vec::<String>::new());
          let a = m.decoded_mappings().count();
          let b = rspack_sources::decode_mappings(&m).count();
          (a, b)
        };
        // long strings on an ordinary 2 MiB stack (recursion per separator must not exhaust it)
        let n = guard(|| if s.len() > 2000 { crate::runner::on_small_stack(decode) } else { decode() })
        .map_err(|p| format!("decode_mappings({s:?}): {p}"))?;
        if n.0 != n.1 {
          return Err(format!("decode_mappings and decoded_mappings yield {} / {} segments for {s:?}", n.1, n.0));
        }
        // longest continuation run / largest magnitude
        let mut run = 0usize;
        let mut best = 0usize;
        for c in s.bytes() {
          match crate::model::vlq::b64_value(c) {
            Some(d) if d & 32 != 0 => {
              run += 1;
              best = best.max(run);
            }
            _ => run = 0,
          }
        }
        Ok(CaseInfo::nt(best >= 6).class(best >= 12, "continuation run of >=13 digits").class(s.bytes().any(|c| crate::model::vlq::b64_value(c).is_none() && c != b',' && c != b';'), "junk characters"))
      }
      Case::Json(bytes) => {
        let r = guard(|| {
          let a = SourceMap::from_slice(bytes).is_ok();
          let b = SourceMap::from_reader(&bytes[..]).is_ok();
          let c = std::str::from_utf8(bytes).ok().map(|s| SourceMap::from_json(s).is_ok());
          (a, b, c)
        })
        .map_err(|p| format!("parsing {:?}: {p}", String::from_utf8_lossy(bytes)))?;
        if r.0 != r.1 || r.2.is_some_and(|c| c != r.0) {
          return Err(format!(
            "from_slice / from_reader / from_json disagree on accepting {:?}: {} / {} / {:?}",
            String::from_utf8_lossy(bytes), r.0, r.1, r.2
          ));
        }
        Ok(CaseInfo::nt(!JSON_SEEDS.iter().any(|s| s.as_bytes() == &bytes[..])).class(r.0, "accepted document").class(std::str::from_utf8(bytes).is_err(), "invalid UTF-8 input"))
      }
      Case::Tree(spec) => check_tree(spec),
    }
  }
}
