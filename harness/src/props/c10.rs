//! C10 CachedSource is transparent for every call history

use proptest::collection::vec;
use proptest::prelude::*;
use rspack_sources::{BoxSource, CachedSource, Source, SourceMap};
use serde::{Deserialize, Serialize};

use crate::build::build;
use crate::gen::{tree, GenCfg};
use crate::observe::{attr_from_map, decode_map, guard, line_only_full, opts, positions, stream, AttrFull};
use crate::props::c03::passthrough_sms;
use crate::props::c05::hash_of;
use crate::runner::*;
use crate::spec::{model_bytes, model_text, Spec};

pub struct C10;

pub const OPS: &[&str] = &[
  "source", "buffer", "size", "rope", "to_writer", "hash", "clone",
  "map(true)", "map(false)",
  "stream(true)", "stream(false)", "stream(true,final)", "stream(false,final)",
  "map(true)", "map(false)", "stream(true)", "stream(false)",
];

#[derive(Clone, Debug, Serialize, Deserialize)]
pub struct Case {
  pub inner: Spec,
  /// (handle 0..3, op index into OPS)
  pub ops: Vec<(u8, u8)>,
}

fn strategy() -> BoxedStrategy<Case> {
  // No CachedSource beneath a ReplaceSource inside the wrapped tree: a nested cache warms up
  // during the history, its replay coarsens chunks, and a ReplaceSource above cuts by chunk,
  // so the wrapped source itself answers differently before and after (see DESIGN.md 1.5 rule 1);
  // a never-cached twin cannot be the oracle for such trees.
  (tree(GenCfg { cached_under_replace: false, ..GenCfg::positional() }), vec((0u8..3u8, 0u8..OPS.len() as u8), 1..=10))
    .prop_map(|(inner, ops)| Case { inner, ops })
    .boxed()
}

fn line_attr_of(a: &[AttrFull], text: &str) -> Vec<Option<(String, Option<String>, u32)>> {
  // (file, content, line) per byte; callers compare per line
  let _ = text;
  a.iter().map(line_only_full).collect()
}

fn cmp_attr(what: &str, step: usize, text: &str, got: &[AttrFull], want: &[AttrFull], columns: bool) -> Result<(), String> {
  let (pos, _) = positions(text);
  if columns {
    for i in 0..text.len() {
      if got[i] != want[i] {
        return Err(format!(
          "step {step} {what}: byte {i} ({}:{}) of {text:?} is attributed to {:?}, the wrapped source says {:?}",
          pos[i].0, pos[i].1, got[i], want[i]
        ));
      }
    }
  } else {
    let (g, w) = (line_attr_of(got, text), line_attr_of(want, text));
    for i in 0..text.len() {
      if g[i] != w[i] {
        return Err(format!(
          "step {step} {what}: output line {} of {text:?} is attributed to {:?}, the wrapped source says {:?}",
          pos[i].0, g[i], w[i]
        ));
      }
    }
  }
  Ok(())
}

/// bytes -> case (fuzz target `hist_c10`)
pub fn case_from_bytes(data: &[u8]) -> Case {
  let mut c = crate::from_bytes::Cur::new(data);
  let n = 1 + c.below(10);
  let ops = (0..n).map(|_| (c.u8() % 3, c.u8() % OPS.len() as u8)).collect();
  let cfg = GenCfg { cached_under_replace: false, ..GenCfg::positional() };
  let inner = crate::gen::normalize(crate::from_bytes::spec(&mut c, cfg.depth, cfg), cfg);
  Case { inner, ops }
}

impl Prop for C10 {
  type Case = Case;
  const ID: &'static str = "C10";
  fn rule(&self) -> String {
    "wrapped source: ASCII tree from gen::tree(positional) (may itself contain CachedSources); history of 1-10 ops over \
     three handles (the wrapper and two clones sharing its caches; 'clone' re-points a handle) drawn from \
     source/buffer/size/rope/to_writer/hash/clone/map(t|f)/stream(t|f)/stream(t|f, final_source); after every op the \
     answer is compared with a never-cached twin built fresh from the same Spec (text, bytes, size, end info, per-byte \
     attribution; per line for columns=false). Non-trivial: the history contains a replay (second stream with the same \
     options) or map-after-stream / stream-after-map for one column setting, and the tree has a mapped chunk; distinct \
     by hash of the case JSON".into()
  }
  fn legs(&self, _tier: Tier) -> Vec<Leg<Case>> {
    vec![Leg { name: "histories", source: Cases::Generated(Box::new(strategy), 400_000, 5_000_000) }]
  }
  fn stages(&self, ctx: &Ctx) -> Vec<Stage> {
    if ctx.tier == Tier::Thorough {
      crate::fuzz::campaigns("C10", &["hist_c10"], ctx)
    } else {
      vec![]
    }
  }
  fn check(&self, case: &Case) -> CheckResult {
    let inner = &case.inner;
    let text = model_text(inner);
    let bytes = model_bytes(inner);
    let (_, end) = positions(&text);
    let passthrough = passthrough_sms(inner);
    let r = guard(|| -> Result<CaseInfo, String> {
      let c0: CachedSource<BoxSource> = CachedSource::new(build(inner));
      let mut handles = vec![c0.clone(), c0.clone(), c0];
      let mut first_map: [Option<Option<SourceMap>>; 2] = [None, None];
      let mut first_hash: Option<u64> = None;
      // per columns: what filled / touched the normal-mode cache entry so far
      let mut seen_stream = [false, false];
      let mut seen_map = [false, false];
      let (mut replay, mut map_after_stream, mut stream_after_map) = (false, false, false);
      let mut any_mapped = false;
      for (step, (h, op)) in case.ops.iter().enumerate() {
        let c = &handles[*h as usize % 3];
        let name = OPS[*op as usize];
        match name {
          "source" => {
            if c.source() != text {
              return Err(format!("step {step}: source() = {:?}, wrapped source gives {text:?}", c.source()));
            }
            // the wrapped source itself stays reachable and unchanged
            if c.original().source() != text || c.original().buffer() != bytes {
              return Err(format!("step {step}: original() no longer answers like the wrapped source"));
            }
          }
          "buffer" => {
            if c.buffer() != bytes {
              return Err(format!("step {step}: buffer() differs from the wrapped source's"));
            }
          }
          "size" => {
            if c.size() != bytes.len() {
              return Err(format!("step {step}: size() = {}, wrapped source gives {}", c.size(), bytes.len()));
            }
          }
          "rope" => {
            if c.rope().to_string() != text {
              return Err(format!("step {step}: rope() renders differently from the wrapped source"));
            }
          }
          "to_writer" => {
            let mut v = vec![];
            c.to_writer(&mut v).map_err(|e| e.to_string())?;
            if v != bytes {
              return Err(format!("step {step}: to_writer wrote different bytes"));
            }
          }
          "hash" => {
            let hv = hash_of(c);
            if *first_hash.get_or_insert(hv) != hv {
              return Err(format!("step {step}: hash changed during the history"));
            }
          }
          "clone" => {
            let cl = c.clone();
            let k = (*h as usize + 1) % 3;
            handles[k] = cl;
          }
          "map(true)" | "map(false)" => {
            let columns = name == "map(true)";
            let ci = columns as usize;
            let got = c.map(&opts(columns, false));
            let want = build(inner).map(&opts(columns, false));
            let ga = attr_from_map(got.as_ref(), &text, columns)?;
            let wa = attr_from_map(want.as_ref(), &text, columns)?;
            cmp_attr(name, step, &text, &ga, &wa, columns)?;
            // "there is a map" is part of the answer.  Only a SourceMapSource without inner map hands out a map that may
            // map nothing (known finding K1); every other tree answers None exactly when nothing is mapped, whichever
            // path filled the cache.
            if got.is_some() != want.is_some() && !inner.any(&|s| matches!(s, Spec::Sms { .. } | Spec::Custom { .. })) {
              return Err(format!(
                "step {step}: {name} is {} (mappings {:?}), the wrapped source answers {}",
                if got.is_some() { "Some" } else { "None" },
                got.as_ref().map(|m| m.mappings().to_string()),
                if want.is_some() { "Some" } else { "None" }
              ));
            }
            if let Some(prev) = &first_map[ci] {
              if *prev != got {
                return Err(format!(
                  "step {step}: {name} returned {:?}, an earlier identical call returned {:?}",
                  got.as_ref().map(|m| m.mappings().to_string()),
                  prev.as_ref().map(|m| m.mappings().to_string())
                ));
              }
            } else {
              first_map[ci] = Some(got.clone());
            }
            if !columns && !passthrough {
              // a columns=false answer: only line-level segments, no names
              if let Some(m) = &got {
                for s in decode_map(m)?.segs {
                  if s.col != 0 || s.orig.is_some_and(|o| o.col != 0 || o.name.is_some()) {
                    return Err(format!(
                      "step {step}: map(columns=false) returned column-level detail (a result cached for columns=true?): {:?}",
                      m.mappings()
                    ));
                  }
                }
              }
            }
            if seen_stream[ci] {
              map_after_stream = true;
            }
            seen_map[ci] = true;
            any_mapped |= wa.iter().any(|a| a.is_some());
          }
          _ => {
            let columns = name.starts_with("stream(true");
            let fin = name.ends_with("final)");
            let ci = columns as usize;
            let gs = stream(c, &opts(columns, fin));
            let ws = stream(&*build(inner), &opts(columns, fin));
            if gs.info != end || ws.info != end {
              return Err(format!("step {step} {name}: end info {:?} (wrapped source {:?}), text ends at {end:?}", gs.info, ws.info));
            }
            if let Some(e) = gs.wf_errors.first() {
              return Err(format!("step {step} {name}: {e}"));
            }
            if !fin {
              let gt = gs.text();
              if gt != text {
                return Err(format!("step {step} {name}: chunks reassemble to {gt:?}, wrapped source gives {text:?}"));
              }
              let (_, ga) = gs.attr();
              let (_, wa) = ws.attr();
              if columns {
                cmp_attr(name, step, &text, &ga, &wa, true)?;
              } else {
                // per line: the first mapped chunk starting on the line
                let (gl, wl) = (gs.line_attr(), ws.line_attr());
                if gl != wl {
                  return Err(format!("step {step} {name}: per-line attribution {gl:?}, wrapped source {wl:?}"));
                }
              }
              if seen_stream[ci] {
                replay = true;
              }
              if seen_map[ci] {
                stream_after_map = true;
              }
              seen_stream[ci] = true;
              any_mapped |= ws.any_mapped();
            } else {
              let ga = gs.attr_by_position(&text, columns);
              let wa = ws.attr_by_position(&text, columns);
              cmp_attr(name, step, &text, &ga, &wa, columns)?;
            }
          }
        }
      }
      // after the history every handle still answers like the wrapped source
      for (k, hd) in handles.iter().enumerate() {
        if hd.source() != text || hd.size() != bytes.len() {
          return Err(format!("handle {k} answers differently after the history"));
        }
      }
      Ok(
        CaseInfo::nt((replay || map_after_stream || stream_after_map) && any_mapped)
          .class(replay, "replay (second stream with the same options)")
          .class(map_after_stream, "map after stream (same columns)")
          .class(stream_after_map, "stream after map (same columns)")
          .class(inner.has_cached(), "wrapped tree contains a CachedSource")
          .class(case.ops.iter().any(|o| OPS[o.1 as usize] == "clone"), "history with clone"),
      )
    });
    match r {
      Err(p) => Err(p),
      Ok(x) => x,
    }
  }
}
