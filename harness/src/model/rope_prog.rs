//! Rope construction programs (C16, C19): evaluated simultaneously to a real
//! `Rope` and to the flat `String` it stands for.

use rspack_sources::Rope;
use serde::{Deserialize, Serialize};

pub const PIECES: &[&str] = &[
  "", "a", "b", "ab", "\n", "a\n", "\nb", "é", "aé", "日", "😀", "x\ny\n", "ab", "\n\n", "ß\n",
  // long pieces (index 15..): a multi-byte character as the 256th / 512th character, a long ASCII line
  LONG_A, LONG_B, LONG_C,
];

// LONG_A: the 256th character is 2 bytes wide; LONG_B: the 512th character is 4 bytes wide
const LONG_A: &str = "aaaaaaaaaaaaaaaaaaaaaaaaaaaaaaaaaaaaaaaaaaaaaaaaaaaaaaaaaaaaaaaaaaaaaaaaaaaaaaaaaaaaaaaaaaaaaaaaaaaaaaaaaaaaaaaaaaaaaaaaaaaaaaaaaaaaaaaaaaaaaaaaaaaaaaaaaaaaaaaaaaaaaaaaaaaaaaaaaaaaaaaaaaaaaaaaaaaaaaaaaaaaaaaaaaaaaaaaaaaaaaaaaaaaaaaaaaaaaaaaaaaaaaaaaaaaaaaéb\nc";
const LONG_B: &str = "bbbbbbbbbbbbbbbbbbbbbbbbbbbbbbbbbbbbbbbbbbbbbbbbbbbbbbbbbbbbbbbbbbbbbbbbbbbbbbbbbbbbbbbbbbbbbbbbbbbbbbbbbbbbbbbbbbbbbbbbbbbbbbbbbbbbbbbbbbbbbbbbbbbbbbbbbbbbbbbbbbbbbbbbbbbbbbbbbbbbbbbbbbbbbbbbbbbbbbbbbbbbbbbbbbbbbbbbbbbbbbbbbbbbbbbbbbbbbbbbbbbbbbbbbbbbbbbbbbbbbbbbbbbbbbbbbbbbbbbbbbbbbbbbbbbbbbbbbbbbbbbbbbbbbbbbbbbbbbbbbbbbbbbbbbbbbbbbbbbbbbbbbbbbbbbbbbbbbbbbbbbbbbbbbbbbbbbbbbbbbbbbbbbbbbbbbbbbbbbbbbbbbbbbbbbbbbbbbbbbbbbbbbbbbbbbbbbbbbbbbbbbbbbbbbbbbbbbbbbbbbbbbbbbbbbbbbbbbbbbbbbbbbbbbbbbbbbbbbbbbbbbbbbbbbb😀z";
const LONG_C: &str = "let x = 1; let x = 1; let x = 1; let x = 1; let x = 1; let x = 1; let x = 1; let x = 1; let x = 1; let x = 1; let x = 1; let x = 1; let x = 1; let x = 1; let x = 1; let x = 1; let x = 1; let x = 1; let x = 1; let x = 1; let x = 1; let x = 1; let x = 1; let x = 1; let x = 1; let x = 1; let x = 1; let x = 1; let x = 1; let x = 1; \n";

/// small scope used by the exhaustive enumeration
pub const SMALL: &[usize] = &[0, 1, 4, 7, 10];

#[derive(Debug, Clone, Serialize, Deserialize, PartialEq)]
pub enum Prog {
  New,
  From(usize),
  FromIter(Vec<usize>),
  Add(Box<Prog>, usize),
  Append(Box<Prog>, Box<Prog>),
  /// byte_slice between two char boundaries given as eighths of the length
  Slice(Box<Prog>, usize, usize),
  /// the k-th element of lines()
  Line(Box<Prog>, usize),
}

pub fn floor_cb(s: &str, mut i: usize) -> usize {
  i = i.min(s.len());
  while !s.is_char_boundary(i) {
    i -= 1;
  }
  i
}

/// lines(): split after every '\n'; a final "" iff the string is empty or ends in '\n'
pub fn model_lines(s: &str) -> Vec<String> {
  let mut v: Vec<String> = s.split_inclusive('\n').map(|x| x.to_string()).collect();
  if s.is_empty() || s.ends_with('\n') {
    v.push(String::new());
  }
  v
}

pub fn eval(b: &Prog) -> (Rope<'static>, String) {
  match b {
    Prog::New => (Rope::new(), String::new()),
    Prog::From(i) => (Rope::from(PIECES[*i % PIECES.len()]), PIECES[*i % PIECES.len()].to_string()),
    Prog::FromIter(v) => {
      let pieces = || v.iter().map(|i| PIECES[*i % PIECES.len()]);
      // three spellings of the iterator (exact size hint; lower bound 0; collect::<Rope>() over a chain
      // whose size hint is a sum), chosen by the content so that every evaluation makes the same call
      let rope: Rope<'static> = match v.iter().sum::<usize>() % 3 {
        0 => Rope::from_iter(pieces()),
        1 => Rope::from_iter(pieces().filter(|p| p.len() < usize::MAX)),
        _ => pieces().take(v.len() / 2).chain(pieces().skip(v.len() / 2)).filter(|_| true).collect(),
      };
      (rope, pieces().collect())
    }
    Prog::Add(x, i) => {
      let (mut r, mut s) = eval(x);
      r.add(PIECES[*i % PIECES.len()]);
      s.push_str(PIECES[*i % PIECES.len()]);
      (r, s)
    }
    Prog::Append(x, y) => {
      let (mut r, mut s) = eval(x);
      let (r2, s2) = eval(y);
      r.append(r2);
      s.push_str(&s2);
      (r, s)
    }
    Prog::Slice(x, a, b2) => {
      let (r, s) = eval(x);
      let a = floor_cb(&s, s.len() * (*a % 9) / 8);
      let b2 = floor_cb(&s, s.len() * (*b2 % 9) / 8);
      let (a, b2) = (a.min(b2), a.max(b2));
      (r.byte_slice(a..b2), s[a..b2].to_string())
    }
    Prog::Line(x, k) => {
      let (r, s) = eval(x);
      let ls: Vec<Rope<'static>> = r.lines().collect();
      let ml = model_lines(&s);
      if ls.is_empty() {
        // lines() of any rope yields at least one line in the model; report through the text
        return (Rope::new(), ml.first().cloned().unwrap_or_default());
      }
      let k = *k % ls.len();
      (ls[k].clone(), ml.get(k).cloned().unwrap_or_else(|| "<missing line>".into()))
    }
  }
}

impl Prog {
  pub fn depth(&self) -> usize {
    match self {
      Prog::Add(x, _) | Prog::Slice(x, _, _) | Prog::Line(x, _) => 1 + x.depth(),
      Prog::Append(x, y) => 1 + x.depth().max(y.depth()),
      _ => 0,
    }
  }
}

/// every program of depth <= `depth` over the SMALL pieces (finite)
pub fn enumerate(depth: usize) -> Vec<Prog> {
  let mut level: Vec<Prog> = vec![Prog::New];
  for &p in SMALL {
    level.push(Prog::From(p));
  }
  level.push(Prog::FromIter(vec![]));
  for &p in SMALL {
    level.push(Prog::FromIter(vec![p]));
    for &q in SMALL {
      level.push(Prog::FromIter(vec![p, q]));
    }
  }
  let base = level.clone();
  let mut all = level.clone();
  for d in 0..depth {
    let mut next = vec![];
    for x in &level {
      for &p in SMALL {
        next.push(Prog::Add(Box::new(x.clone()), p));
      }
      for k in 0..3 {
        next.push(Prog::Line(Box::new(x.clone()), k));
      }
      for (a, b) in [(0, 4), (2, 8), (4, 4), (1, 7), (0, 8), (3, 5)] {
        next.push(Prog::Slice(Box::new(x.clone()), a, b));
      }
      // append with base programs on either side (keeps the space finite and small)
      if d == 0 {
        for y in &base {
          next.push(Prog::Append(Box::new(x.clone()), Box::new(y.clone())));
        }
      } else {
        for y in base.iter().take(8) {
          next.push(Prog::Append(Box::new(x.clone()), Box::new(y.clone())));
          next.push(Prog::Append(Box::new(y.clone()), Box::new(x.clone())));
        }
      }
    }
    all.extend(next.iter().cloned());
    level = next;
  }
  all
}
