//! Independent implementation of the source-map v3 "mappings" format
//! (base64 VLQ).  Written from the format description, shares no code with the
//! crate under test.

use crate::spec::{Orig, Seg};

pub const B64: &[u8; 64] = b"ABCDEFGHIJKLMNOPQRSTUVWXYZabcdefghijklmnopqrstuvwxyz0123456789+/";

pub fn b64_value(c: u8) -> Option<u8> {
  B64.iter().position(|&b| b == c).map(|p| p as u8)
}

/// Append one VLQ number. `redundant` extra continuation digits of value zero
/// are appended (a legal but unusual spelling).
pub fn put_vlq(out: &mut String, v: i64, redundant: usize) {
  let mut n: u64 = if v < 0 { ((-v) as u64) << 1 | 1 } else { (v as u64) << 1 };
  let mut digits: Vec<u8> = Vec::new();
  loop {
    let d = (n & 31) as u8;
    n >>= 5;
    digits.push(d);
    if n == 0 {
      break;
    }
  }
  for _ in 0..redundant {
    digits.push(0);
  }
  let last = digits.len() - 1;
  for (i, d) in digits.iter().enumerate() {
    let d = if i < last { d | 32 } else { *d };
    out.push(B64[d as usize] as char);
  }
}

/// Encode *every* segment as given (nothing is dropped, unlike the crate's
/// encoder).  Segments must be sorted by line; columns may go backwards.
pub fn encode(segs: &[Seg]) -> String {
  encode_with(segs, &mut |_| 0)
}

/// Like `encode`; `redundant(i)` gives the number of redundant continuation
/// digits for the i-th number written.
pub fn encode_with(segs: &[Seg], redundant: &mut dyn FnMut(usize) -> usize) -> String {
  let mut out = String::new();
  let mut line = 1u32;
  let mut first_on_line = true;
  let (mut gc, mut si, mut ol, mut oc, mut ni) = (0i64, 0i64, 1i64, 0i64, 0i64);
  let mut k = 0usize;
  for s in segs {
    while line < s.line {
      out.push(';');
      line += 1;
      gc = 0;
      first_on_line = true;
    }
    if !first_on_line {
      out.push(',');
    }
    first_on_line = false;
    let mut put = |out: &mut String, v: i64| {
      put_vlq(out, v, redundant(k));
      k += 1;
    };
    put(&mut out, s.col as i64 - gc);
    gc = s.col as i64;
    if let Some(o) = s.orig {
      put(&mut out, o.src as i64 - si);
      si = o.src as i64;
      put(&mut out, o.line as i64 - ol);
      ol = o.line as i64;
      put(&mut out, o.col as i64 - oc);
      oc = o.col as i64;
      if let Some(n) = o.name {
        put(&mut out, n as i64 - ni);
        ni = n as i64;
      }
    }
  }
  out
}

#[derive(Debug, Clone, PartialEq, Eq)]
pub enum DecodeError {
  BadChar(char),
  BadFieldCount(usize),
  Truncated,
  Negative(&'static str),
}

/// Decode a mappings string exactly as the format defines: `;` separates
/// lines and resets the generated column, `,` separates segments, empty
/// segments are skipped, a segment has 1, 4 or 5 fields, all fields but the
/// generated column are relative to the previous occurrence in the whole
/// string, the original line field is relative to 1 (so that absolute original
/// lines are 1-based, matching the crate's convention).
pub fn decode(s: &str) -> Result<Vec<Seg>, DecodeError> {
  let mut out = vec![];
  let (mut si, mut ol, mut oc, mut ni) = (0i64, 1i64, 0i64, 0i64);
  let mut line = 1u32;
  for l in s.split(';') {
    let mut gc = 0i64;
    for seg in l.split(',') {
      if seg.is_empty() {
        continue;
      }
      let mut vals: Vec<i64> = vec![];
      let (mut cur, mut shift, mut open) = (0u128, 0u32, false);
      for ch in seg.bytes() {
        let d = b64_value(ch).ok_or(DecodeError::BadChar(ch as char))? as u128;
        if shift < 120 {
          cur |= (d & 31) << shift;
        }
        if d & 32 != 0 {
          shift += 5;
          open = true;
        } else {
          let mag = (cur >> 1) as i64;
          vals.push(if cur & 1 == 1 { -mag } else { mag });
          cur = 0;
          shift = 0;
          open = false;
        }
      }
      if open {
        return Err(DecodeError::Truncated);
      }
      if !matches!(vals.len(), 1 | 4 | 5) {
        return Err(DecodeError::BadFieldCount(vals.len()));
      }
      gc += vals[0];
      if gc < 0 {
        return Err(DecodeError::Negative("generated column"));
      }
      let orig = if vals.len() >= 4 {
        si += vals[1];
        ol += vals[2];
        oc += vals[3];
        if si < 0 || ol < 0 || oc < 0 {
          return Err(DecodeError::Negative("original"));
        }
        let name = if vals.len() == 5 {
          ni += vals[4];
          if ni < 0 {
            return Err(DecodeError::Negative("name"));
          }
          Some(ni as u32)
        } else {
          None
        };
        Some(Orig {
          src: si as u32,
          line: ol as u32,
          col: oc as u32,
          name,
        })
      } else {
        None
      };
      out.push(Seg {
        line,
        col: gc as u32,
        orig,
      });
    }
    line += 1;
  }
  Ok(out)
}
