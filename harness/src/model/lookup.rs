//! Source-map lookup reference (C08, C09): works on the generated MapSpec
//! directly, never on anything the crate decoded.

use crate::observe::{positions, root_join, AttrFull};
use crate::spec::{MapSpec, Orig, Seg};

/// per byte of `text`: index of the covering segment (greatest segment at or
/// before the byte on its line)
pub fn cover(segs: &[Seg], text: &str) -> Vec<Option<usize>> {
  let (pos, _) = positions(text);
  pos
    .iter()
    .map(|(l, c)| {
      let mut best = None;
      for (i, s) in segs.iter().enumerate() {
        if s.line == *l && s.col <= *c {
          best = Some(i);
        }
      }
      best
    })
    .collect()
}

/// line-only view of a segment list: per line the first mapped segment, moved
/// to column 0, without name
pub fn lines_view(segs: &[Seg]) -> Vec<Seg> {
  let mut v: Vec<Seg> = vec![];
  for s in segs {
    if let Some(o) = s.orig {
      if !v.iter().any(|x| x.line == s.line) {
        v.push(Seg { line: s.line, col: 0, orig: Some(Orig { name: None, ..o }) });
      }
    }
  }
  v
}

#[derive(Debug, Clone)]
pub struct RChunk {
  pub line: u32,
  pub col: u32,
  pub text: String,
  pub seg: Option<usize>,
}

/// reference splitter: the bytes of each line grouped by covering segment
pub fn ref_chunks(segs: &[Seg], text: &str) -> Vec<RChunk> {
  let (pos, _) = positions(text);
  let cv = cover(segs, text);
  let mut out: Vec<RChunk> = vec![];
  for i in 0..text.len() {
    let new = match out.last() {
      Some(last) => last.line != pos[i].0 || last.seg != cv[i],
      None => true,
    };
    if new {
      out.push(RChunk { line: pos[i].0, col: pos[i].1, text: String::new(), seg: cv[i] });
    }
    out.last_mut().unwrap().text.push(text.as_bytes()[i] as char);
  }
  out
}

pub fn src_name(m: &MapSpec, i: u32) -> String {
  m.sources.get(i as usize).map(|s| root_join(m.root.as_deref(), s)).unwrap_or(format!("?src{i}"))
}
pub fn src_content(m: &MapSpec, i: u32) -> Option<String> {
  m.contents.get(i as usize).cloned().filter(|c| !c.is_empty())
}
pub fn name_str(m: &MapSpec, i: u32) -> String {
  m.names.get(i as usize).cloned().unwrap_or(format!("?name{i}"))
}

pub fn attr_of(m: &MapSpec, o: &Option<Orig>) -> AttrFull {
  o.map(|o| (src_name(m, o.src), src_content(m, o.src), o.line, o.col, o.name.map(|n| name_str(m, n))))
}

/// lookup(M) for every byte of `text`
pub fn lookup_all(m: &MapSpec, text: &str, columns: bool) -> Vec<AttrFull> {
  if columns {
    cover(&m.segs, text).into_iter().map(|k| attr_of(m, &k.and_then(|k| m.segs[k].orig))).collect()
  } else {
    let (pos, _) = positions(text);
    pos
      .iter()
      .map(|(l, _)| {
        let first = m.segs.iter().find(|s| s.line == *l && s.orig.is_some()).and_then(|s| s.orig);
        attr_of(m, &first).map(|(f, c, ol, _, _)| (f, c, ol, 0, None))
      })
      .collect()
  }
}

/// the 1-based `l`-th line (with its line break) of `content`
pub fn line_of(content: &str, l: u32) -> Option<&str> {
  if l == 0 {
    return None;
  }
  content.split_inclusive('\n').nth(l as usize - 1)
}
