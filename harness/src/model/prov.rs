//! Byte-provenance model (C04): where every output byte of a tree over
//! {Raw*, Original, Concat, Replace, Cached} really came from.  Never looks at
//! the crate's chunking.

use crate::observe::positions;
use crate::spec::{splice_vec, Spec};

#[derive(Clone, Debug, PartialEq)]
pub enum Prov {
  Orig {
    file: String,
    line: u32,
    col: u32,
    /// first byte of a statement token of its OriginalSource
    tok_start: bool,
    /// the '\n' of an empty original line (a token of its own, deliberately unmapped with columns=true)
    lone_nl: bool,
  },
  Raw,
  Repl,
}

/// Independent tokenizer for the documented splitting rule
/// `/[^\n;{}]+[;{} \r\t]*\n?|[;{} \r\t]+\n?|\n/g`; returns (start, end) byte ranges.
pub fn tokens(t: &str) -> Vec<(usize, usize)> {
  let b = t.as_bytes();
  let stmt = |c: u8| c != b'\n' && c != b';' && c != b'{' && c != b'}';
  let sep = |c: u8| matches!(c, b';' | b'{' | b'}' | b' ' | b'\r' | b'\t');
  let mut out = vec![];
  let mut i = 0;
  while i < b.len() {
    let s = i;
    if b[i] == b'\n' {
      i += 1;
    } else {
      while i < b.len() && stmt(b[i]) {
        i += 1;
      }
      while i < b.len() && sep(b[i]) {
        i += 1;
      }
      if i < b.len() && b[i] == b'\n' {
        i += 1;
      }
    }
    out.push((s, i));
  }
  out
}

pub fn prov(s: &Spec) -> Vec<Prov> {
  match s {
    Spec::Raw(t) | Spec::RawStr(t) | Spec::Custom { text: t } => vec![Prov::Raw; t.len()],
    Spec::RawBuf(b) | Spec::RawBytes(b) => vec![Prov::Raw; String::from_utf8_lossy(b).len()],
    Spec::Orig { text, name } => {
      let (pos, _) = positions(text);
      let mut v: Vec<Prov> = pos
        .iter()
        .map(|(l, c)| Prov::Orig { file: name.clone(), line: *l, col: *c, tok_start: false, lone_nl: false })
        .collect();
      for (s, e) in tokens(text) {
        let lone = &text[s..e] == "\n";
        if let Prov::Orig { tok_start, lone_nl, .. } = &mut v[s] {
          *tok_start = !lone;
          *lone_nl = lone;
        }
      }
      v
    }
    Spec::Sms { .. } | Spec::SmsInner { .. } => panic!("provenance model: SourceMapSource is outside C04's quantifier"),
    Spec::Concat { children, .. } => children.iter().flat_map(prov).collect(),
    Spec::Cached(i) | Spec::Boxed(i) => prov(i),
    Spec::Replace { inner, repls } => splice_vec(&prov(inner), repls, &|_, _| Prov::Repl),
  }
}
