//! Attribution model of the ReplaceSource splice (C06), written from the
//! property statement.  Input: the inner source's *observed* normal-mode chunk
//! stream and the replacement list.  Output: pieces of output text with the
//! attribution each must carry.  No generated positions are computed here.

use crate::observe::{AttrFull, Stream};
use crate::spec::{sorted_repls, Repl};

#[derive(Clone, Debug)]
pub struct Piece {
  pub text: String,
  pub attr: AttrFull,
  /// the piece is replacement content
  pub is_repl: bool,
  /// a cut fell strictly inside a mapped chunk to produce this piece
  pub cut_inside_mapped: bool,
}

pub fn model_replace(st: &Stream, repls: &[Repl]) -> Vec<Piece> {
  let rs: Vec<&Repl> = sorted_repls(repls).into_iter().map(|i| &repls[i]).collect();
  let mut out: Vec<Piece> = vec![];
  let mut pos = 0usize; // byte offset in the inner text
  let mut i = 0usize; // next replacement
  let mut rend: Option<usize> = None; // inner text is consumed up to here
  for ch in &st.chunks {
    let text = ch.text.clone().expect("normal-mode chunk has text");
    let e = pos + text.len();
    let o = ch.orig;
    let srcinfo = o.and_then(|x| st.source_of(x.src).cloned());
    let mut cur_col = o.map(|x| x.col).unwrap_or(0);
    // advance the original column by `piece` only where the announced content of that
    // source at (line, current column) starts with the piece text
    let advance = |cur_col: &mut u32, piece: &str| {
      if let (Some(o), Some((_, _, Some(content)))) = (o, &srcinfo) {
        if o.line >= 1 {
          if let Some(line) = content.split_inclusive('\n').nth(o.line as usize - 1) {
            let cc = *cur_col as usize;
            if cc <= line.len() && line.is_char_boundary(cc) && line[cc..].starts_with(piece) {
              *cur_col += piece.len() as u32;
            }
          }
        }
      }
    };
    let attr = |cur_col: u32, name: Option<String>| -> AttrFull {
      o.map(|x| {
        let (f, c) = match &srcinfo {
          Some(s) => (s.1.clone(), s.2.clone().filter(|c| !c.is_empty())),
          None => (format!("?src{}", x.src), None),
        };
        (f, c, x.line, cur_col, name)
      })
    };
    let oname: Option<String> = o
      .and_then(|x| x.name)
      .map(|n| st.name_of(n).map(|s| s.to_string()).unwrap_or(format!("?name{n}")));
    let mut cp = 0usize; // offset in this chunk
    let mut whole_skipped = false;
    if let Some(re) = rend.filter(|re| *re > pos) {
      if re >= e {
        pos = e;
        continue;
      }
      let skip = re - pos;
      advance(&mut cur_col, &text[0..skip]);
      cp = skip;
      pos += skip;
    }
    while i < rs.len() && (rs[i].start as usize) < e {
      let stp = rs[i].start as usize;
      if stp > pos {
        let off = stp - pos;
        let piece = &text[cp..cp + off];
        out.push(Piece {
          text: piece.to_string(),
          attr: attr(cur_col, oname.clone()),
          is_repl: false,
          cut_inside_mapped: o.is_some(),
        });
        advance(&mut cur_col, piece);
        cp += off;
        pos = stp;
      }
      // replacement content: location active at its start; its own name if it has one
      // (and the chunk is mapped), else the chunk's name, on its first line only
      let mut nm = if o.is_some() && rs[i].name.is_some() { rs[i].name.clone() } else { oname.clone() };
      for l in rs[i].content.split_inclusive('\n') {
        out.push(Piece {
          text: l.to_string(),
          attr: attr(cur_col, nm.clone()),
          is_repl: true,
          cut_inside_mapped: o.is_some() && cp > 0,
        });
        nm = None;
      }
      rend = Some(rend.unwrap_or(0).max(rs[i].end as usize));
      i += 1;
      let re = rend.unwrap();
      if re > pos {
        if re >= e {
          whole_skipped = true;
          break;
        }
        let off = re - pos;
        advance(&mut cur_col, &text[cp..cp + off]);
        cp += off;
        pos += off;
      }
    }
    if !whole_skipped && cp < text.len() {
      out.push(Piece {
        text: text[cp..].to_string(),
        attr: attr(cur_col, oname.clone()),
        is_repl: false,
        cut_inside_mapped: o.is_some() && cp > 0,
      });
    }
    pos = e;
  }
  // leftover replacements are unmapped
  while i < rs.len() {
    out.push(Piece { text: rs[i].content.clone(), attr: None, is_repl: true, cut_inside_mapped: false });
    i += 1;
  }
  out
}
