pub mod vlq;
