pub mod vlq;
pub mod prov;
pub mod replace_attr;
pub mod lookup;
pub mod rope_prog;
