//! Generic driver: runs the legs of a property (proptest-generated or
//! enumerated), shards across threads, shrinks failures, writes replay and
//! evidence files, handles known findings.

use std::cell::RefCell;
use std::collections::{BTreeMap, HashSet};
use std::hash::{Hash, Hasher};
use std::sync::atomic::{AtomicBool, AtomicU64, Ordering};
use std::sync::Mutex;
use std::time::Instant;

use proptest::strategy::{BoxedStrategy, Strategy, ValueTree};
use proptest::test_runner::{Config, RngAlgorithm, TestCaseError, TestError, TestRng, TestRunner};
use serde::de::DeserializeOwned;
use serde::Serialize;

use crate::observe::{guard, LAST_PANIC_LOC};

#[derive(Clone, Copy, Debug, PartialEq, Eq)]
pub enum Tier {
  Quick,
  Thorough,
}

impl Tier {
  pub fn name(self) -> &'static str {
    match self {
      Tier::Quick => "quick",
      Tier::Thorough => "thorough",
    }
  }
  pub fn pick<T>(self, q: T, t: T) -> T {
    match self {
      Tier::Quick => q,
      Tier::Thorough => t,
    }
  }
}

pub struct Ctx {
  pub tier: Tier,
  pub seed: u64,
  pub verif_dir: String,
  pub threads: usize,
  /// this process is the `plain`-profile child of a checked run: no evidence file,
  /// a machine-readable summary line instead
  pub sub: bool,
}

/// What a check reports about one case that held.
#[derive(Default, Debug, Clone)]
pub struct CaseInfo {
  pub nontrivial: bool,
  pub classes: Vec<&'static str>,
  /// the case matched the shape of an open known finding and was evaluated in
  /// tolerant mode
  pub excluded_known: bool,
}

impl CaseInfo {
  pub fn nt(nontrivial: bool) -> Self {
    CaseInfo { nontrivial, ..Default::default() }
  }
  pub fn class(mut self, on: bool, name: &'static str) -> Self {
    if on {
      self.classes.push(name);
    }
    self
  }
}

pub type CheckResult = Result<CaseInfo, String>;

/// Outcome of an extra stage.
pub struct Stage {
  pub name: String,
  pub evaluations: u64,
  pub nontrivial: u64,
  /// (reason, replay path)
  pub failure: Option<(String, String)>,
  /// the stage could not run (tool missing, build failed): the run is inconclusive
  pub inconclusive: Option<String>,
  pub details: serde_json::Value,
}

pub enum Cases<C> {
  /// proptest strategy (built once per worker thread), number of cases (quick, thorough)
  Generated(Box<dyn Fn() -> BoxedStrategy<C> + Send + Sync>, u64, u64),
  /// complete enumeration of a finite space (built per tier)
  Enumerated(Box<dyn Fn(Tier) -> Box<dyn Iterator<Item = C> + Send> + Send + Sync>),
}

pub struct Leg<C> {
  pub name: &'static str,
  pub source: Cases<C>,
}

pub trait Prop: Sync {
  type Case: Serialize + DeserializeOwned + std::fmt::Debug + Clone + Send + 'static;
  const ID: &'static str;
  fn rule(&self) -> String;
  fn legs(&self, tier: Tier) -> Vec<Leg<Self::Case>>;
  fn check(&self, case: &Self::Case) -> CheckResult;
  /// minimum number of distinct non-trivial cases below which the run is inconclusive
  fn floor(&self, tier: Tier) -> u64 {
    tier.pick(50, 500)
  }
  fn assumptions(&self) -> Vec<String> {
    vec![]
  }
  /// further stages run after the legs when they found nothing (the same legs on the
  /// `plain` build profile in a child process, coverage-guided fuzz campaigns)
  fn stages(&self, _ctx: &Ctx) -> Vec<Stage> {
    vec![]
  }
  /// extra keys for the coverage object (e.g. exhaustive flags)
  fn extra_coverage(&self, _tier: Tier) -> BTreeMap<String, serde_json::Value> {
    BTreeMap::new()
  }
}

thread_local! {
  /// JSON of the case being evaluated on this thread (for abort diagnostics)
  pub static CURRENT_CASE: RefCell<String> = const { RefCell::new(String::new()) };
}
pub static CURRENT_PROP: Mutex<String> = Mutex::new(String::new());
/// first panic that happened outside any evaluated case (generator / harness bug)
pub static HARNESS_ERROR: Mutex<Option<String>> = Mutex::new(None);
pub static VERIF_DIR: Mutex<String> = Mutex::new(String::new());

fn hash64(s: &str) -> u64 {
  let mut h = std::collections::hash_map::DefaultHasher::new();
  s.hash(&mut h);
  h.finish()
}

/// Install the panic hook: silent for ordinary (caught) panics, but records the
/// location; for non-unwinding panics (std's UB checks, panics in drop) the
/// process is about to abort, so the violation is reported from here.
pub fn install_panic_hook() {
  std::panic::set_hook(Box::new(|info| {
    let loc = info.location().map(|l| format!("{}:{}", l.file(), l.line())).unwrap_or_default();
    LAST_PANIC_LOC.with(|l| *l.borrow_mut() = loc.clone());
    let msg = info.to_string();
    if msg.contains("unsafe precondition") || msg.contains("cannot unwind") || msg.contains("panic in a destructor") {
      static REPORTED: AtomicBool = AtomicBool::new(false);
      if REPORTED.swap(true, Ordering::SeqCst) {
        // another thread is already reporting and will exit the process
        loop {
          std::thread::park();
        }
      }
      let prop = CURRENT_PROP.lock().map(|p| p.clone()).unwrap_or_default();
      let case = CURRENT_CASE.with(|c| c.borrow().clone());
      let dir = VERIF_DIR.lock().map(|p| p.clone()).unwrap_or_default();
      let path = write_replay_raw(&dir, &prop, &case, &format!("process abort: {msg}"));
      println!("abort while evaluating a case: {msg}");
      println!("VIOLATION property={prop} replay={path}");
      use std::io::Write;
      let _ = std::io::stdout().flush();
      std::process::exit(1);
    }
  }));
}

/// A fatal signal while a case is being evaluated (stack overflow from unbounded recursion in the code
/// under test, or any other crash that is not a panic) is a violation too: the handler - running on the
/// alternate signal stack std sets up for every thread - saves the case of the crashing thread, prints the
/// VIOLATION line and leaves.  (Not async-signal-safe in the letter; the process is lost anyway.)
pub fn install_crash_handler() {
  extern "C" fn on_fatal(sig: libc::c_int, _info: *mut libc::siginfo_t, _ctx: *mut libc::c_void) {
    static REPORTED: AtomicBool = AtomicBool::new(false);
    if REPORTED.swap(true, Ordering::SeqCst) {
      unsafe { libc::_exit(1) };
    }
    let case = CURRENT_CASE.try_with(|c| c.try_borrow().map(|s| s.clone()).unwrap_or_default()).unwrap_or_default();
    let prop = CURRENT_PROP.try_lock().map(|p| p.clone()).unwrap_or_default();
    let dir = VERIF_DIR.try_lock().map(|p| p.clone()).unwrap_or_default();
    let what = match sig {
      libc::SIGSEGV => "SIGSEGV (stack overflow or invalid memory access)",
      libc::SIGBUS => "SIGBUS",
      libc::SIGILL => "SIGILL",
      libc::SIGFPE => "SIGFPE",
      _ => "fatal signal",
    };
    let line = if case.is_empty() {
      format!("HARNESS_ERROR: {what} outside any evaluated case\nINCONCLUSIVE property={prop}: harness error\n")
    } else {
      let path = write_replay_raw(&dir, &prop, &case, &format!("process crash: {what}"));
      format!("crash while evaluating a case: {what}\nVIOLATION property={prop} replay={path}\n")
    };
    unsafe {
      libc::write(1, line.as_ptr() as *const libc::c_void, line.len());
      libc::_exit(if case.is_empty() { 2 } else { 1 });
    }
  }
  unsafe {
    let mut sa: libc::sigaction = std::mem::zeroed();
    sa.sa_sigaction = on_fatal as usize;
    sa.sa_flags = libc::SA_SIGINFO | libc::SA_ONSTACK;
    libc::sigemptyset(&mut sa.sa_mask);
    for sig in [libc::SIGSEGV, libc::SIGBUS, libc::SIGILL, libc::SIGFPE] {
      libc::sigaction(sig, &sa, std::ptr::null_mut());
    }
  }
}

/// Run `f` on a thread with an ordinary 2 MiB stack (the evaluating threads of this harness have 64 MiB
/// for their own deep recursion; library code that recurses once per input element must still fit the
/// stack its users have).  The case being evaluated is made known to the crash handler on that thread.
pub fn on_small_stack<T: Send>(f: impl FnOnce() -> T + Send) -> T {
  let case = CURRENT_CASE.with(|c| c.borrow().clone());
  let slot = MY_SLOT.with(|s| *s);
  let r = std::thread::scope(|s| {
    std::thread::Builder::new()
      .stack_size(2 << 20)
      .spawn_scoped(s, move || {
        CURRENT_CASE.with(|c| *c.borrow_mut() = case);
        // the watchdog looks at every thread that works on the case
        let me = gettid();
        if let Some(Some(e)) = SLOTS.lock().unwrap().get_mut(slot) {
          e.2.push(me);
        }
        struct Gone(usize, i32);
        impl Drop for Gone {
          fn drop(&mut self) {
            if let Ok(mut s) = SLOTS.lock() {
              if let Some(Some(e)) = s.get_mut(self.0) {
                e.2.retain(|t| *t != self.1);
              }
            }
          }
        }
        let _gone = Gone(slot, me);
        f()
      })
      .expect("spawn a small-stack thread")
      .join()
  });
  match r {
    Ok(v) => v,
    Err(p) => std::panic::resume_unwind(p),
  }
}

fn write_replay_raw(dir: &str, prop: &str, case_json: &str, reason: &str) -> String {
  write_replay_ctx(dir, prop, case_json, reason, &[])
}

/// `context`: the cases evaluated on the same thread right before a failure that does not show when the failing case
/// is evaluated on its own (the library kept something between cases); a replay evaluates them first, in order.
fn write_replay_ctx(dir: &str, prop: &str, case_json: &str, reason: &str, context: &[String]) -> String {
  let d = format!("{dir}/replays/{prop}");
  let _ = std::fs::create_dir_all(&d);
  let path = format!("{d}/{:016x}.json", hash64(case_json));
  let case: serde_json::Value =
    serde_json::from_str(case_json).unwrap_or(serde_json::Value::String(case_json.to_string()));
  let mut doc = serde_json::json!({ "property": prop, "reason": reason, "case": case });
  if !context.is_empty() {
    let ctx: Vec<serde_json::Value> = context.iter().filter_map(|c| serde_json::from_str(c).ok()).collect();
    doc["context"] = serde_json::Value::Array(ctx);
  }
  let _ = std::fs::write(&path, serde_json::to_string_pretty(&doc).unwrap());
  path
}

#[derive(Default)]
struct Stats {
  evaluations: u64,
  nontrivial: HashSet<u64>,
  classes: BTreeMap<&'static str, u64>,
  excluded_known: u64,
  samples: Vec<serde_json::Value>,
  per_leg: BTreeMap<&'static str, (u64, u64)>,
}

pub struct Failure {
  pub leg: &'static str,
  pub reason: String,
  pub case_json: String,
  /// cases evaluated before it on the same thread, when the failure needs them (see `write_replay_ctx`)
  pub context: Vec<String>,
}

const RECENT_CASES: usize = 12;
thread_local! {
  /// the last cases evaluated on this thread, oldest first (the last entry is the case being evaluated)
  static RECENT: RefCell<std::collections::VecDeque<String>> = const { RefCell::new(std::collections::VecDeque::new()) };
  /// (case, reason, cases before it) of the first failure a generated leg met on this thread
  static FIRST_FAIL: RefCell<Option<(String, String, Vec<String>)>> = const { RefCell::new(None) };
}

pub struct Outcome {
  pub failure: Option<Failure>,
  pub evaluations: u64,
  pub distinct_nontrivial: u64,
}

fn shard_seed(seed: u64, prop: &str, leg: &str, shard: usize) -> [u8; 32] {
  let mut out = [0u8; 32];
  for k in 0..4 {
    let h = hash64(&format!("{seed}/{prop}/{leg}/{shard}/{k}"));
    out[k * 8..k * 8 + 8].copy_from_slice(&h.to_le_bytes());
  }
  out
}

/// Watchdog: a case that does not finish within the limit makes the run
/// *inconclusive* (exit 2), never a violation.
const CASE_LIMIT_S: u64 = 300;
static SLOT_COUNT: AtomicU64 = AtomicU64::new(0);
/// time is counted in half-second ticks of the watchdog thread itself, not by the wall clock: if the whole
/// process (or machine) is stopped for a while, no tick passes and nothing is declared stuck
static TICKS: AtomicU64 = AtomicU64::new(0);
/// (tick at which the case started, case JSON, ids of the threads working on it: the evaluating thread and the
/// small-stack helper threads it waits for)
static SLOTS: Mutex<Vec<Option<(u64, String, Vec<i32>)>>> = Mutex::new(Vec::new());
/// A thread that is asleep in the kernel and has consumed no CPU time for this many watchdog ticks (20 s of the
/// watchdog's own time) while evaluating a single-threaded case is blocked for good: nothing else works on the case
/// that could wake it.  That is not a resource limit but a call that never returns (a lock taken twice, a wait
/// nobody answers).  Properties whose statement covers it (C17: "panic or hang") report it as a violation;
/// for the others it ends the run as inconclusive without waiting for the full case limit.
const BLOCKED_TICKS: u32 = 40;

fn gettid() -> i32 {
  unsafe { libc::syscall(libc::SYS_gettid) as i32 }
}

/// (state letter, utime + stime) of a thread of this process
fn thread_stat(tid: i32) -> Option<(char, u64)> {
  let st = std::fs::read_to_string(format!("/proc/self/task/{tid}/stat")).ok()?;
  let rest = &st[st.rfind(')')? + 2..];
  let f: Vec<&str> = rest.split(' ').collect();
  // after the command name: state is field 0, utime field 11, stime field 12
  Some((f.first()?.chars().next()?, f.get(11)?.parse::<u64>().ok()? + f.get(12)?.parse::<u64>().ok()?))
}

/// properties for which a call that never returns is itself a violation of the statement
fn blocked_is_violation(prop: &str) -> bool {
  prop == "C17"
}
thread_local! {
  static MY_SLOT: usize = {
    let k = SLOT_COUNT.fetch_add(1, Ordering::SeqCst) as usize;
    let mut s = SLOTS.lock().unwrap();
    while s.len() <= k { s.push(None); }
    k
  };
}

pub fn start_watchdog() {
  // per slot: (start tick of the case it was counted for, CPU time seen last, consecutive ticks asleep without CPU time)
  let mut still: Vec<(u64, u64, u32)> = vec![];
  std::thread::spawn(move || loop {
    std::thread::sleep(std::time::Duration::from_millis(500));
    let now = TICKS.fetch_add(1, Ordering::SeqCst) + 1;
    let stuck: Option<String> = {
      let s = SLOTS.lock().unwrap();
      s.iter().flatten().find(|(t, _, _)| now.saturating_sub(*t) > 2 * CASE_LIMIT_S).map(|(_, j, _)| j.clone())
    };
    // blocked for good?  every thread of a case asleep, none of them consuming CPU time, tick after tick
    // (not where the evaluating thread legitimately sleeps while threads or processes of its own work: C18, C19, C20)
    let single_threaded_cases = !matches!(CURRENT_PROP.lock().map(|p| p.clone()).unwrap_or_default().as_str(), "C18" | "C19" | "C20");
    let blocked: Option<String> = {
      let s = SLOTS.lock().unwrap();
      let mut found = None;
      while still.len() < s.len() {
        still.push((0u64, 0u64, 0u32));
      }
      for (k, e) in s.iter().enumerate() {
        let Some((t0, json, tids)) = e else {
          still[k] = (0, 0, 0);
          continue;
        };
        if !single_threaded_cases {
          continue;
        }
        let stats: Vec<Option<(char, u64)>> = tids.iter().map(|t| thread_stat(*t)).collect();
        let asleep = !stats.is_empty() && stats.iter().all(|x| matches!(x, Some(('S', _))));
        let cpu: u64 = stats.iter().flatten().map(|x| x.1).sum::<u64>() + tids.len() as u64 * 1_000_000_007;
        if asleep && still[k].0 == *t0 && still[k].1 == cpu {
          still[k].2 += 1;
        } else {
          still[k] = (*t0, cpu, 0);
        }
        if still[k].2 >= BLOCKED_TICKS {
          found = Some(json.clone());
        }
      }
      found
    };
    if let Some(json) = blocked {
      let prop = CURRENT_PROP.lock().map(|p| p.clone()).unwrap_or_default();
      let dir = VERIF_DIR.lock().map(|p| p.clone()).unwrap_or_default();
      let why = "a call does not return: the evaluating thread has been asleep in the kernel, consuming no CPU time, for 20 s while nothing else works on the case (blocked for good, e.g. on a lock it already holds)";
      let path = write_replay_raw(&dir, &prop, &json, why);
      if blocked_is_violation(&prop) {
        println!("abort: {why}");
        println!("VIOLATION property={prop} replay={path}");
      } else {
        println!("INCONCLUSIVE property={prop}: {why} (saved as {path})");
      }
      use std::io::Write;
      let _ = std::io::stdout().flush();
      std::process::exit(if blocked_is_violation(&prop) { 1 } else { 2 });
    }
    if let Some(json) = stuck {
      let prop = CURRENT_PROP.lock().map(|p| p.clone()).unwrap_or_default();
      let dir = VERIF_DIR.lock().map(|p| p.clone()).unwrap_or_default();
      let path = write_replay_raw(&dir, &prop, &json, "watchdog: case did not finish within the limit");
      println!("INCONCLUSIVE property={prop}: a case did not finish within {CASE_LIMIT_S} s (saved as {path})");
      use std::io::Write;
      let _ = std::io::stdout().flush();
      std::process::exit(2);
    }
  });
}

fn eval_case<P: Prop>(p: &P, case: &P::Case) -> (String, CheckResult) {
  let json = serde_json::to_string(case).expect("case serialises");
  CURRENT_CASE.with(|c| *c.borrow_mut() = json.clone());
  RECENT.with(|r| {
    let mut r = r.borrow_mut();
    if r.len() == RECENT_CASES + 1 {
      r.pop_front();
    }
    r.push_back(json.clone());
  });
  let slot = MY_SLOT.with(|s| *s);
  SLOTS.lock().unwrap()[slot] = Some((TICKS.load(Ordering::SeqCst), json.clone(), vec![gettid()]));
  struct Clear(usize);
  impl Drop for Clear {
    fn drop(&mut self) {
      if let Ok(mut s) = SLOTS.lock() {
        s[self.0] = None;
      }
    }
  }
  let _clear = Clear(slot);
  let _ = crate::heapcheck::take();
  let r = match guard(|| p.check(case)) {
    Ok(r) => r,
    Err(panic) => Err(format!("the harness or the library panicked outside a guarded call: {panic}")),
  };
  // the checking binary's allocator keeps 16 guard bytes behind every block and looks at them when the block is freed
  let r = match (crate::heapcheck::take(), r) {
    (Some(size), Ok(_)) => Err(format!("heap block overrun: the guard bytes behind a {size}-byte allocation freed on this thread while the case was evaluated had been overwritten")),
    (_, r) => r,
  };
  (json, r)
}

/// Run all legs.  Returns the first (shrunk) failure, if any.
pub fn run_prop<P: Prop>(p: &P, ctx: &Ctx) -> i32 {
  *CURRENT_PROP.lock().unwrap() = P::ID.to_string();
  *VERIF_DIR.lock().unwrap() = ctx.verif_dir.clone();
  let t0 = Instant::now();
  let stats = Mutex::new(Stats::default());
  let stop = AtomicBool::new(false);
  let failure: Mutex<Option<Failure>> = Mutex::new(None);
  let mut exhaustive_legs: Vec<&'static str> = vec![];
  let mut known_lines: Vec<String> = vec![];

  // 1. replay the open known findings of this property
  let known = if ctx.sub { vec![] } else { crate::known::load(&ctx.verif_dir) };
  for k in known.iter().filter(|k| k.property == P::ID && k.status == "open") {
    let path = format!("{}/{}", ctx.verif_dir, k.replay);
    match std::fs::read_to_string(&path)
      .ok()
      .and_then(|s| serde_json::from_str::<serde_json::Value>(&s).ok())
      .and_then(|v| serde_json::from_value::<P::Case>(v["case"].clone()).ok())
    {
      Some(case) => {
        let strict = crate::known::with_strict(|| eval_case(p, &case).1);
        if let Err(reason) = strict {
          if reason.contains(&k.signature) {
            known_lines.push(format!("KNOWN-FINDING: property={} {}", P::ID, k.what));
          } else {
            // the recorded input now fails differently: that is a new violation
            let path = write_replay_raw(&ctx.verif_dir, P::ID, &serde_json::to_string(&case).unwrap(), &reason);
            println!("recorded known-finding input fails with a different signature: {reason}");
            println!("VIOLATION property={} replay={}", P::ID, path);
            return 1;
          }
        }
      }
      None => {
        eprintln!("warning: known finding replay {} unreadable", path);
      }
    }
  }
  for l in &known_lines {
    println!("{l}");
  }

  // 1b. regression tier: saved minimal inputs of earlier findings (fixed defects, sensitivity
  // mutants), re-evaluated without proptest and without any tolerance
  let mut regress_n = 0u64;
  if !ctx.sub {
    let dir = format!("{}/regress/{}", ctx.verif_dir, P::ID);
    let mut files: Vec<_> = std::fs::read_dir(&dir).map(|d| d.filter_map(|e| e.ok()).map(|e| e.path()).collect()).unwrap_or_default();
    files.sort();
    for f in files {
      if f.extension().map_or(true, |e| e != "json") {
        continue;
      }
      let Some(case) = std::fs::read_to_string(&f)
        .ok()
        .and_then(|s| serde_json::from_str::<serde_json::Value>(&s).ok())
        .and_then(|v| serde_json::from_value::<P::Case>(if v.get("case").is_some() { v["case"].clone() } else { v }).ok())
      else {
        eprintln!("warning: regression input {} unreadable", f.display());
        continue;
      };
      regress_n += 1;
      if let Err(reason) = crate::known::with_strict(|| eval_case(p, &case).1) {
        println!("regression input {}: {reason}", f.display());
        println!("VIOLATION property={} replay={}", P::ID, f.display());
        return 1;
      }
    }
  }

  // 2. the legs
  for leg in p.legs(ctx.tier) {
    if stop.load(Ordering::SeqCst) {
      break;
    }
    let leg_name = leg.name;
    match leg.source {
      Cases::Generated(strategy, q, t) => {
        let total = ctx.tier.pick(q, t);
        let shards = ctx.threads.max(1).min(total.max(1) as usize);
        let per = total.div_ceil(shards as u64);
        std::thread::scope(|sc| {
          for shard in 0..shards {
            let strategy = &strategy;
            let (stats, stop, failure) = (&stats, &stop, &failure);
            let seed = shard_seed(ctx.seed, P::ID, leg_name, shard);
            std::thread::Builder::new()
              .stack_size(64 << 20)
              .spawn_scoped(sc, move || {
                let mut local = Stats::default();
                let failed = AtomicBool::new(false);
                let mut runner = TestRunner::new_with_rng(
                  Config {
                    cases: per as u32,
                    failure_persistence: None,
                    max_shrink_iters: 20_000,
                    max_local_rejects: 1,
                    max_global_rejects: 1,
                    ..Config::default()
                  },
                  TestRng::from_seed(RngAlgorithm::ChaCha, &seed),
                );
                let local_ref = RefCell::new(&mut local);
                let strategy = strategy();
                let res = guard(|| runner.run(&strategy, |case| {
                  if stop.load(Ordering::Relaxed) && !failed.load(Ordering::Relaxed) {
                    return Ok(());
                  }
                  let (json, r) = eval_case(p, &case);
                  match r {
                    Ok(info) => {
                      if !failed.load(Ordering::Relaxed) {
                        let mut l = local_ref.borrow_mut();
                        l.evaluations += 1;
                        let e = l.per_leg.entry(leg_name).or_default();
                        e.0 += 1;
                        if info.nontrivial {
                          let h = hash64(&json);
                          if l.nontrivial.insert(h) {
                            l.per_leg.get_mut(leg_name).unwrap().1 += 1;
                            if l.samples.len() < 2 && json.len() < 4000 {
                              l.samples.push(serde_json::from_str(&json).unwrap());
                            }
                          }
                        }
                        for c in info.classes {
                          *l.classes.entry(c).or_default() += 1;
                        }
                        if info.excluded_known {
                          l.excluded_known += 1;
                        }
                      }
                      Ok(())
                    }
                    Err(reason) => {
                      if !failed.swap(true, Ordering::Relaxed) {
                        let before: Vec<String> = RECENT.with(|r| {
                          let r = r.borrow();
                          r.iter().take(r.len().saturating_sub(1)).cloned().collect()
                        });
                        FIRST_FAIL.with(|f| *f.borrow_mut() = Some((json.clone(), reason.clone(), before)));
                      }
                      Err(TestCaseError::fail(reason))
                    }
                  }
                }));
                drop(local_ref);
                let res = match res {
                  Ok(r) => r,
                  Err(panic) => {
                    // a panic outside any evaluated case: generator or harness bug, never a verdict
                    HARNESS_ERROR.lock().unwrap().get_or_insert(format!("leg {leg_name}: {panic}"));
                    stop.store(true, Ordering::SeqCst);
                    Ok(())
                  }
                };
                if let Err(e) = res {
                  match e {
                    TestError::Fail(reason, case) => {
                      stop.store(true, Ordering::SeqCst);
                      let mut f = failure.lock().unwrap();
                      if f.is_none() {
                        // does the shrunk case fail on its own, on a thread that has evaluated nothing else?  If not, the
                        // library kept something between cases: report the first failing case as it was met, together with
                        // the cases evaluated before it on this thread
                        let shrunk_json = serde_json::to_string(&case).unwrap();
                        let alone = std::thread::scope(|sc2| {
                          std::thread::Builder::new()
                            .stack_size(64 << 20)
                            .spawn_scoped(sc2, || match serde_json::from_str::<P::Case>(&shrunk_json) {
                              Ok(c) => eval_case(p, &c).1.is_err(),
                              Err(_) => true,
                            })
                            .ok()
                            .and_then(|h| h.join().ok())
                            .unwrap_or(true)
                        });
                        let first = FIRST_FAIL.with(|ff| ff.borrow_mut().take());
                        *f = Some(match (alone, first) {
                          (false, Some((json, why, before))) => Failure {
                            leg: leg_name,
                            reason: format!("{why} [the case passes when evaluated on its own: the failure depends on what the library kept from the {} cases evaluated before it on the same thread, which the replay file lists]", before.len()),
                            case_json: json,
                            context: before,
                          },
                          _ => Failure { leg: leg_name, reason: reason.message().to_string(), case_json: serde_json::to_string(&case).unwrap(), context: vec![] },
                        });
                      }
                    }
                    TestError::Abort(r) => {
                      eprintln!("proptest aborted: {r}");
                    }
                  }
                }
                let mut g = stats.lock().unwrap();
                g.evaluations += local.evaluations;
                g.excluded_known += local.excluded_known;
                g.nontrivial.extend(local.nontrivial);
                for (k, v) in local.classes {
                  *g.classes.entry(k).or_default() += v;
                }
                for (k, v) in local.per_leg {
                  let e = g.per_leg.entry(k).or_default();
                  e.0 += v.0;
                  e.1 += v.1;
                }
                for s in local.samples {
                  if g.samples.len() < 5 {
                    g.samples.push(s);
                  }
                }
              })
              .unwrap();
          }
        });
      }
      Cases::Enumerated(mk) => {
        exhaustive_legs.push(leg_name);
        let iter = Mutex::new(mk(ctx.tier));
        let counter = AtomicU64::new(0);
        std::thread::scope(|sc| {
          for _ in 0..ctx.threads.max(1) {
            let (stats, stop, failure, iter, counter) = (&stats, &stop, &failure, &iter, &counter);
            std::thread::Builder::new()
              .stack_size(64 << 20)
              .spawn_scoped(sc, move || {
                let mut local = Stats::default();
                loop {
                  if stop.load(Ordering::Relaxed) {
                    break;
                  }
                  let batch: Vec<P::Case> = {
                    let mut it = iter.lock().unwrap();
                    (0..256).filter_map(|_| it.next()).collect()
                  };
                  if batch.is_empty() {
                    break;
                  }
                  for case in batch {
                    counter.fetch_add(1, Ordering::Relaxed);
                    let (json, r) = eval_case(p, &case);
                    match r {
                      Ok(info) => {
                        local.evaluations += 1;
                        let e = local.per_leg.entry(leg_name).or_default();
                        e.0 += 1;
                        if info.nontrivial && local.nontrivial.insert(hash64(&json)) {
                          local.per_leg.get_mut(leg_name).unwrap().1 += 1;
                          if local.samples.len() < 1 && json.len() < 4000 {
                            local.samples.push(serde_json::from_str(&json).unwrap());
                          }
                        }
                        for c in info.classes {
                          *local.classes.entry(c).or_default() += 1;
                        }
                      }
                      Err(reason) => {
                        stop.store(true, Ordering::SeqCst);
                        let mut f = failure.lock().unwrap();
                        if f.is_none() {
                          *f = Some(Failure { leg: leg_name, reason, case_json: json, context: vec![] });
                        }
                        break;
                      }
                    }
                  }
                }
                let mut g = stats.lock().unwrap();
                g.evaluations += local.evaluations;
                g.nontrivial.extend(local.nontrivial);
                for (k, v) in local.classes {
                  *g.classes.entry(k).or_default() += v;
                }
                for (k, v) in local.per_leg {
                  let e = g.per_leg.entry(k).or_default();
                  e.0 += v.0;
                  e.1 += v.1;
                }
                for s in local.samples {
                  if g.samples.len() < 5 {
                    g.samples.push(s);
                  }
                }
              })
              .unwrap();
          }
        });
      }
    }
  }

  let stats = stats.into_inner().unwrap();
  let failure = failure.into_inner().unwrap();
  // 3. extra stages
  let mut stage_details = serde_json::Map::new();
  let mut stage_eval = 0u64;
  let mut stage_nt = 0u64;
  let mut stage_failure: Option<(String, String, String)> = None;
  let mut stage_inconclusive: Option<String> = None;
  if failure.is_none() && !ctx.sub {
    for st in p.stages(ctx) {
      stage_eval += st.evaluations;
      stage_nt += st.nontrivial;
      stage_details.insert(st.name.clone(), st.details);
      if let Some(why) = st.inconclusive {
        stage_inconclusive = Some(format!("stage {}: {why}", st.name));
      }
      if let Some((reason, path)) = st.failure {
        stage_failure = Some((st.name, reason, path));
        break;
      }
    }
  }
  let wall = t0.elapsed().as_secs_f64();
  let violations = (failure.is_some() || stage_failure.is_some()) as i64;
  if ctx.sub {
    // child of a checked run: machine-readable summary, no evidence file
    let (freason, fpath) = match &failure {
      Some(f) => (Some(f.reason.clone()), Some(write_replay_ctx(&ctx.verif_dir, P::ID, &f.case_json, &f.reason, &f.context))),
      None => (None, None),
    };
    println!(
      "SUBRESULT {}",
      serde_json::json!({
        "evaluations": stats.evaluations,
        "distinct_nontrivial": stats.nontrivial.len(),
        "excluded_known": stats.excluded_known,
        "failure": freason,
        "replay": fpath,
        "wall_s": wall,
      })
    );
    return if failure.is_some() { 1 } else { 0 };
  }
  let mut coverage = serde_json::Map::new();
  coverage.insert("evaluations".into(), (stats.evaluations + stage_eval).into());
  coverage.insert("distinct_nontrivial".into(), (stats.nontrivial.len() as u64 + stage_nt).into());
  if !stage_details.is_empty() {
    coverage.insert("stages".into(), serde_json::Value::Object(stage_details));
  }
  coverage.insert("rule".into(), p.rule().into());
  coverage.insert("samples".into(), serde_json::Value::Array(stats.samples.clone()));
  coverage.insert(
    "classes".into(),
    serde_json::to_value(stats.classes.iter().map(|(k, v)| (k.to_string(), *v)).collect::<BTreeMap<_, _>>()).unwrap(),
  );
  coverage.insert(
    "per_leg".into(),
    serde_json::to_value(
      stats
        .per_leg
        .iter()
        .map(|(k, v)| (k.to_string(), serde_json::json!({"evaluations": v.0, "distinct_nontrivial": v.1})))
        .collect::<BTreeMap<_, _>>(),
    )
    .unwrap(),
  );
  coverage.insert("excluded_known".into(), stats.excluded_known.into());
  coverage.insert("regression_inputs_replayed".into(), regress_n.into());
  coverage.insert("known_findings_reported".into(), known_lines.clone().into());
  if !exhaustive_legs.is_empty() {
    coverage.insert("exhaustive_legs".into(), exhaustive_legs.iter().map(|s| s.to_string()).collect::<Vec<_>>().into());
  }
  for (k, v) in p.extra_coverage(ctx.tier) {
    coverage.insert(k, v);
  }
  let ev = serde_json::json!({
    "property_id": P::ID,
    "tier": ctx.tier.name(),
    "seed": ctx.seed,
    "level": "exploration",
    "coverage": coverage,
    "assumptions": p.assumptions(),
    "wall_s": wall,
    "violations": violations,
  });
  let evdir = format!("{}/evidence", ctx.verif_dir);
  let _ = std::fs::create_dir_all(&evdir);
  std::fs::write(format!("{evdir}/{}.json", P::ID), serde_json::to_string_pretty(&ev).unwrap())
    .expect("write evidence");

  println!(
    "{} {}: {} evaluations, {} distinct non-trivial, {} in a known-finding shape, {:.1}s",
    P::ID,
    ctx.tier.name(),
    stats.evaluations,
    stats.nontrivial.len(),
    stats.excluded_known,
    wall
  );
  for (k, v) in &stats.classes {
    println!("  class {k}: {v}");
  }
  if let Some(f) = failure {
    let path = write_replay_ctx(&ctx.verif_dir, P::ID, &f.case_json, &f.reason, &f.context);
    println!("leg {}: {}", f.leg, f.reason);
    println!("VIOLATION property={} replay={}", P::ID, path);
    return 1;
  }
  if let Some((name, reason, path)) = stage_failure {
    println!("stage {name}: {reason}");
    println!("VIOLATION property={} replay={}", P::ID, path);
    return 1;
  }
  if let Some(e) = HARNESS_ERROR.lock().unwrap().clone() {
    println!("INCONCLUSIVE property={}: harness error (a panic outside any evaluated case): {e}", P::ID);
    return 2;
  }
  if let Some(why) = stage_inconclusive {
    println!("INCONCLUSIVE property={}: {why}", P::ID);
    return 2;
  }
  if (stats.nontrivial.len() as u64) < p.floor(ctx.tier) {
    println!(
      "INCONCLUSIVE property={}: only {} distinct non-trivial cases (floor {})",
      P::ID,
      stats.nontrivial.len(),
      p.floor(ctx.tier)
    );
    return 2;
  }
  0
}

/// Re-evaluate one saved case without proptest.
pub fn replay_prop<P: Prop>(p: &P, ctx: &Ctx, path: &str) -> i32 {
  *CURRENT_PROP.lock().unwrap() = P::ID.to_string();
  *VERIF_DIR.lock().unwrap() = ctx.verif_dir.clone();
  let s = match std::fs::read_to_string(path) {
    Ok(s) => s,
    Err(e) => {
      eprintln!("cannot read {path}: {e}");
      return 2;
    }
  };
  let v: serde_json::Value = serde_json::from_str(&s).expect("replay file is JSON");
  let case_v = if v.get("case").is_some() { v["case"].clone() } else { v };
  let case: P::Case = match serde_json::from_value(case_v) {
    Ok(c) => c,
    Err(e) => {
      eprintln!("replay file does not hold a {} case: {e}", P::ID);
      return 2;
    }
  };
  // cases the failing one was evaluated after (a failure that needs what the library kept between cases)
  if let Some(before) = s.parse::<serde_json::Value>().ok().and_then(|d| d.get("context").and_then(|c| c.as_array().cloned())) {
    for b in before {
      if let Ok(c) = serde_json::from_value::<P::Case>(b) {
        let _ = eval_case(p, &c);
      }
    }
  }
  let (_, r) = crate::known::with_strict(|| eval_case(p, &case));
  match r {
    Ok(info) => {
      println!("{} replay {}: holds (nontrivial={})", P::ID, path, info.nontrivial);
      0
    }
    Err(reason) => {
      println!("{reason}");
      println!("VIOLATION property={} replay={}", P::ID, path);
      1
    }
  }
}

/// helper for shrinking-free sampling of a strategy (used by a few legs)
pub fn sample<T: std::fmt::Debug>(s: &BoxedStrategy<T>, runner: &mut TestRunner) -> T {
  s.new_tree(runner).expect("strategy").current()
}

/// Run the same property on the `plain` build profile (release semantics: wrapping
/// arithmetic, no debug assertions) in a child process.
pub fn plain_stage(id: &str, ctx: &Ctx) -> Stage {
  let bin = std::env::var("VERIF_PLAIN_BIN").unwrap_or_else(|_| format!("{}/harness/target/plain/vcheck", ctx.verif_dir));
  let mut st = Stage {
    name: "same legs on the plain (release-semantics) build".into(),
    evaluations: 0,
    nontrivial: 0,
    failure: None,
    inconclusive: None,
    details: serde_json::Value::Null,
  };
  if !std::path::Path::new(&bin).exists() {
    st.inconclusive = Some(format!("plain-profile binary {bin} not built"));
    return st;
  }
  let out = std::process::Command::new(&bin)
    .arg(id)
    .arg(ctx.tier.name())
    .arg("--sub")
    .env("VERIF_SEED", ctx.seed.to_string())
    .env("VERIF_DIR", &ctx.verif_dir)
    .env("VERIF_THREADS", ctx.threads.to_string())
    .output();
  match out {
    Err(e) => st.inconclusive = Some(format!("cannot run {bin}: {e}")),
    Ok(o) => {
      let text = String::from_utf8_lossy(&o.stdout).to_string();
      match text.lines().find_map(|l| l.strip_prefix("SUBRESULT ")) {
        Some(j) => {
          let v: serde_json::Value = serde_json::from_str(j).unwrap_or(serde_json::Value::Null);
          st.evaluations = v["evaluations"].as_u64().unwrap_or(0);
          st.nontrivial = v["distinct_nontrivial"].as_u64().unwrap_or(0);
          if let Some(r) = v["failure"].as_str() {
            st.failure = Some((format!("plain build: {r}"), v["replay"].as_str().unwrap_or("").to_string()));
          }
          st.details = v;
        }
        None => {
          // the child died (abort / signal) or printed a VIOLATION from its abort hook
          if let Some(l) = text.lines().find(|l| l.starts_with("VIOLATION ")) {
            let path = l.split("replay=").nth(1).unwrap_or("").to_string();
            st.failure = Some((format!("plain build aborted: {}", text.lines().next().unwrap_or("")), path));
          } else {
            st.inconclusive = Some(format!("plain-profile child ended without a result (status {:?}): {}", o.status, text.chars().take(400).collect::<String>()));
          }
        }
      }
    }
  }
  st
}
