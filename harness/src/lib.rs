//! vcheck: property-based checks of rspack-sources (see /verif/DESIGN.md).
#![allow(clippy::type_complexity)]

pub mod build;
pub mod custom;
pub mod edit;
pub mod from_bytes;
pub mod fuzz;
pub mod fuzzrt;
pub mod gen;
pub mod known;
pub mod model;
pub mod observe;
pub mod props;
pub mod runner;
pub mod sched;
pub mod spec;
