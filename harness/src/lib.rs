//! vcheck: property-based checks of rspack-sources (see /verif/DESIGN.md).
#![allow(clippy::type_complexity)]

pub mod build;
pub mod custom;
pub mod edit;
pub mod from_bytes;
pub mod fuzz;
pub mod fuzzrt;
pub mod gen;
pub mod known;
pub mod model;
pub mod observe;
pub mod props;
pub mod runner;
pub mod sched;
pub mod spec;

/// Set by the checking binary's allocator (main.rs) when the guard bytes behind a heap block were found changed at the
/// time the block was freed or reallocated; read (and cleared) by the runner after every case.
pub mod heapcheck {
  use std::cell::Cell;
  thread_local! {
    static OVERRUN: Cell<usize> = const { Cell::new(0) };
  }
  /// (called from inside the allocator: no allocation, no lazy initialisation)
  pub fn report(size: usize) {
    let _ = OVERRUN.try_with(|c| c.set(size.max(1)));
  }
  pub fn take() -> Option<usize> {
    OVERRUN.try_with(|c| c.replace(0)).ok().filter(|n| *n > 0)
  }
}
