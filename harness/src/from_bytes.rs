//! Byte string -> structured case (for the coverage-guided fuzz targets).
//! A plain cursor; running out of bytes yields zeros, so every byte string
//! decodes to some case and small inputs give small cases.

use crate::gen::{concretize_map, concretize_repls, normalize, AbsMap, AbsRepl, AbsSeg, GenCfg};
use crate::model::rope_prog::{Prog, PIECES};
use crate::spec::*;

pub struct Cur<'a> {
  pub data: &'a [u8],
  pub pos: usize,
}

impl<'a> Cur<'a> {
  pub fn new(data: &'a [u8]) -> Self {
    Cur { data, pos: 0 }
  }
  pub fn u8(&mut self) -> u8 {
    let v = self.data.get(self.pos).copied().unwrap_or(0);
    self.pos += 1;
    v
  }
  pub fn u16(&mut self) -> u16 {
    // high byte first so that a single byte spreads over the whole range
    (self.u8() as u16) << 8 | self.u8() as u16
  }
  pub fn u32(&mut self) -> u32 {
    (self.u16() as u32) << 16 | self.u16() as u32
  }
  pub fn below(&mut self, n: usize) -> usize {
    if n == 0 {
      0
    } else {
      self.u8() as usize % n
    }
  }
  pub fn done(&self) -> bool {
    self.pos >= self.data.len()
  }
}

const ALPH_MB: &[&str] = &[
  "a", "é", "日", "😀", ";", "\n", "{", " ", "b", "\n", "}", "ß", "\u{2028}", "x\r", "\t", "fn", "\u{feff}", "»", "们", "\u{8a}", "⊻", "\u{a0}", "ý", "\n", "\n\x0b", "\x0c", ":",
];
const ALPH_ASCII: &[&str] = &["a", "b", "c", " ", ";", "{", "}", "\n", "\n", "xy", "\t", "fn", "\r", "a", "\n", "\n\x0b", "\x0b", "\x0c", "*", "J", ":", "\n"];

pub fn text(c: &mut Cur, max: usize) -> String {
  let n = c.below(max + 1);
  (0..n).map(|_| ALPH_MB[c.below(ALPH_MB.len())]).collect()
}

/// text for a tree under `cfg`: ASCII or multi-byte alphabet; a length byte of 255 asks for a long text
/// (a short pattern repeated beyond 520 / 1100 / 4100 bytes)
pub fn text_cfg(c: &mut Cur, cfg: GenCfg) -> String {
  let alph: &[&str] = if cfg.ascii { ALPH_ASCII } else { ALPH_MB };
  let lb = c.u8();
  if lb == 255 {
    let n = 1 + c.below(6);
    let mut pat: String = (0..n).map(|_| alph[c.below(alph.len())]).collect();
    let k = c.u8();
    if k & 1 == 0 {
      pat = pat.replace('\n', "");
    }
    if pat.is_empty() {
      pat.push('a');
    }
    let want = [520usize, 1100, 4100][(k as usize >> 1) % 3];
    let mut out = String::new();
    while out.len() < want {
      out.push_str(&pat);
    }
    return out;
  }
  let n = lb as usize % (cfg.max_tokens + 1);
  (0..n).map(|_| alph[c.below(alph.len())]).collect()
}

pub fn bytes_cfg(c: &mut Cur, cfg: GenCfg) -> Vec<u8> {
  if cfg.invalid_utf8 {
    bytes(c, cfg.max_tokens)
  } else {
    text_cfg(c, cfg).into_bytes()
  }
}

pub fn bytes(c: &mut Cur, max: usize) -> Vec<u8> {
  let n = c.below(max + 1);
  let mut out = vec![];
  for _ in 0..n {
    let b = c.u8();
    if b < 0x40 {
      out.extend_from_slice(ALPH_MB[b as usize % ALPH_MB.len()].as_bytes());
    } else {
      out.push(b.wrapping_mul(3));
    }
  }
  out
}

fn abs_map(c: &mut Cur, wild_ok: bool) -> AbsMap {
  let n = c.below(7);
  let segs = (0..n).map(|_| AbsSeg::new(c.u16(), c.u8() % 5, c.u16(), c.u16(), c.u16(), c.u8() % 8)).collect();
  let nsrc = 1 + c.u8() % 3;
  let nnames = c.u8() % 4;
  let flags = c.u8();
  // (no second segment at one position here: only C08 quantifies over such maps - a SourceMapSource hands its
  // map through verbatim, so C03 / C11 would read the duplicate as the library's doing)
  AbsMap::new(segs, nsrc, nnames, flags & 1 != 0, (flags >> 1) % 4, (flags >> 3) % 8, (flags >> 6) % 4, wild_ok && c.u8() % 2 == 0)
}

/// `depth` nested ConcatSources at most; single-child wrappers (ReplaceSource, CachedSource, Box) cost half a level, so
/// chains of up to `2 * depth` wrappers of differing kinds are reachable from bytes.
pub fn spec(c: &mut Cur, depth: u32, cfg: GenCfg) -> Spec {
  spec_b(c, depth * 2, cfg)
}

fn spec_b(c: &mut Cur, depth: u32, cfg: GenCfg) -> Spec {
  let k = if depth == 0 { c.below(8) } else { c.below(14) };
  // node kinds the configuration excludes fall back to an OriginalSource / a raw leaf / a Box
  let k = match k {
    6 if !cfg.sms => 4,
    7 if !cfg.sms_inner => 5,
    10 | 11 if !cfg.replace => 13,
    12 if !cfg.cached => 13,
    k => k,
  };
  match k {
    0 => Spec::Raw(text_cfg(c, cfg)),
    1 => Spec::RawStr(text_cfg(c, cfg)),
    2 => Spec::RawBuf(bytes_cfg(c, cfg)),
    3 => Spec::RawBytes(bytes_cfg(c, cfg)),
    4 | 5 => Spec::Orig { text: text_cfg(c, cfg), name: format!("f{}.js", c.below(5)) },
    6 => {
      let t = text_cfg(c, cfg);
      let am = abs_map(c, cfg.wild);
      let map = concretize_map(&t, &am, cfg.ascii);
      let full = match c.u8() % 8 {
        0 => Some((None, true)),
        1 => Some((Some("orig".to_string()), false)),
        _ => None,
      };
      Spec::Sms { text: t, name: format!("g{}.js", c.below(3)), map, full }
    }
    7 => {
      let t = text_cfg(c, cfg);
      let am = abs_map(c, cfg.wild);
      let mut map = concretize_map(&t, &am, cfg.ascii);
      let orig = text_cfg(c, cfg);
      let aim = abs_map(c, cfg.wild);
      let mut inner = concretize_map(&orig, &aim, cfg.ascii);
      for s in inner.sources.iter_mut() {
        *s = format!("i{s}");
      }
      let name = format!("g{}.js", c.below(3));
      let w = c.below(map.sources.len());
      map.root = None;
      map.sources[w] = name.clone();
      let has_content = w < map.contents.len();
      if has_content {
        map.contents[w] = orig.clone();
      }
      let original = if !has_content || c.u8() % 2 == 0 { Some(orig) } else { None };
      Spec::SmsInner { text: t, name, map, original, inner, remove: c.u8() % 3 == 0 }
    }
    8 | 9 => {
      let n = c.below(cfg.max_children + 1);
      let how = c.u8() % 5;
      Spec::Concat { how, children: (0..n).map(|_| spec_b(c, depth.saturating_sub(2), cfg)).collect() }
    }
    10 | 11 => {
      let inner = spec_b(c, depth - 1, cfg);
      let t = model_text(&inner);
      let np = 1 + c.below(5);
      let pool: Vec<u16> = (0..np).map(|_| c.u16()).collect();
      let n = c.below(5);
      let abs: Vec<AbsRepl> = (0..n)
        .map(|_| {
          let flags = c.u8();
          let content = if flags & 0x20 != 0 { String::new() } else { text_cfg(c, GenCfg { max_tokens: 3, ..cfg }) };
          AbsRepl::new(c.u16(), c.u16(), flags & 3 == 0, if flags & 0x1c == 0 { 1 + (flags >> 5) % 3 } else { 0 }, content, c.u8() % 6, c.u8() % 3)
        })
        .collect();
      let repls = concretize_repls(&t, &pool, &abs, cfg.huge_positions);
      Spec::Replace { inner: Box::new(inner), repls }
    }
    12 => Spec::Cached(Box::new(spec_b(c, depth - 1, cfg))),
    _ => Spec::Boxed(Box::new(spec_b(c, depth - 1, cfg))),
  }
}

pub fn tree(data: &[u8], cfg: GenCfg) -> Spec {
  let mut c = Cur::new(data);
  normalize(spec(&mut c, cfg.depth, cfg), cfg)
}

pub fn prog(c: &mut Cur, depth: u32) -> Prog {
  let k = if depth == 0 { c.below(3) } else { c.below(8) };
  let n = PIECES.len();
  match k {
    0 => Prog::New,
    1 => Prog::From(c.below(n)),
    2 => {
      let m = if c.below(8) == 0 { 9 + c.below(16) } else { c.below(5) };
      Prog::FromIter((0..m).map(|_| c.below(n)).collect())
    }
    3 | 4 => Prog::Add(Box::new(prog(c, depth - 1)), c.below(n)),
    5 => Prog::Append(Box::new(prog(c, depth - 1)), Box::new(prog(c, depth - 1))),
    6 => Prog::Slice(Box::new(prog(c, depth - 1)), c.below(9), c.below(9)),
    _ => Prog::Line(Box::new(prog(c, depth - 1)), c.below(4)),
  }
}

/// a sorted mapping list with values spread over all VLQ digit counts
pub fn segs(c: &mut Cur) -> Vec<Seg> {
  let n = c.below(12);
  let mut out: Vec<Seg> = vec![];
  let (mut l, mut col) = (1u32, 0u32);
  let wide = |c: &mut Cur| -> u32 {
    let sh = c.u8() as u32 % 31;
    ((1u32 << sh) - 1).wrapping_add(c.u8() as u32 % 3).min(1 << 30)
  };
  for k in 0..n {
    let step = c.u8() % 6;
    if step < 2 {
      l += 1 + (c.u8() as u32 % 4);
      col = if c.u8() % 2 == 0 { 0 } else { wide(c) };
    } else if k > 0 {
      col = col.saturating_add(1 + wide(c)).min(1 << 30);
      if out.last().is_some_and(|s| s.line == l && s.col >= col) {
        l += 1;
        col = 0;
      }
    }
    let orig = if step == 5 {
      None
    } else {
      Some(Orig { src: wide(c), line: 1 + wide(c), col: wide(c), name: if c.u8() % 3 == 0 { Some(wide(c)) } else { None } })
    };
    out.push(Seg { line: l, col, orig });
  }
  out
}

/// a concurrent program (C18): shared tree over the types with lazily filled shared state,
/// 2-3 threads x 1-3 operations, and the rest of the input as the schedule
pub fn program(data: &[u8]) -> (crate::props::c18::Program, Vec<u8>) {
  use crate::props::c18::{Op, Program};
  fn shared(c: &mut Cur, depth: u32) -> Spec {
    let k = if depth == 0 { c.below(5) } else { c.below(11) };
    match k {
      0 => Spec::Raw(ascii(c, 6)),
      1 => Spec::RawBuf(ascii(c, 6).into_bytes()),
      2 => Spec::RawBytes(ascii(c, 6).into_bytes()),
      3 => Spec::Orig { text: ascii(c, 6), name: format!("f{}.js", c.below(3)) },
      4 => Spec::Custom { text: ascii(c, 6) },
      5 | 6 => {
        let n = 1 + c.below(3);
        Spec::Concat { how: c.u8() % 3, children: (0..n).map(|_| shared(c, depth - 1)).collect() }
      }
      7 | 8 => {
        let inner = shared(c, depth - 1);
        let t = model_text(&inner);
        let pool: Vec<u16> = (0..1 + c.below(4)).map(|_| c.u16()).collect();
        let abs: Vec<AbsRepl> = (0..c.below(4))
          .map(|_| {
            let f = c.u8();
            AbsRepl::new(c.u16(), c.u16(), f & 3 == 0, if f & 0x1c == 0 { 1 } else { 0 }, if f & 0x20 != 0 { String::new() } else { ascii(c, 2) }, c.u8() % 6, c.u8() % 3)
          })
          .collect();
        Spec::Replace { inner: Box::new(inner), repls: concretize_repls(&t, &pool, &abs, false) }
      }
      _ => Spec::Cached(Box::new(shared(c, depth - 1))),
    }
  }
  fn ascii(c: &mut Cur, max: usize) -> String {
    const A: &[&str] = &["a", "b", ";", "\n", " ", "{", "xy"];
    let n = c.below(max + 1);
    (0..n).map(|_| A[c.below(A.len())]).collect()
  }
  let mut c = Cur::new(data);
  let tree = normalize(shared(&mut c, 3), GenCfg::positional());
  let nthreads = 2 + c.below(2);
  let threads = (0..nthreads)
    .map(|_| {
      (0..1 + c.below(3))
        .map(|_| match c.below(15) {
          0 | 1 => Op::Source,
          2 => Op::Size,
          3 | 4 => Op::Map(c.u8() % 2 == 0),
          5 | 6 => Op::Stream(c.u8() % 2 == 0),
          7 | 8 => Op::Hash,
          9 => Op::CloneSource,
          10 => Op::CloneMap(c.u8() % 2 == 0),
          11 => Op::EqTwin,
          14 => Op::CloneMutate,
          12 => Op::EqShared(c.u8() % 2 == 0),
          _ => Op::EqNear(c.u8() % 2 == 0),
        })
        .collect()
    })
    .collect();
  let schedule: Vec<u8> = data.get(c.pos..).unwrap_or(&[]).iter().take(48).map(|b| b % 3).collect();
  (Program { tree, threads, warm: None, near: c.u16() }, schedule)
}
