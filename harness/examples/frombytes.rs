// usage: frombytes <positional|provenance|wild> <file>   prints the Spec a fuzz input decodes to
use vcheck::gen::GenCfg;
fn main() {
  let kind = std::env::args().nth(1).unwrap();
  let data = std::fs::read(std::env::args().nth(2).unwrap()).unwrap();
  let cfg = match kind.as_str() {
    "positional" => GenCfg::positional(),
    "provenance" => GenCfg::provenance(),
    _ => GenCfg::wild(),
  };
  let spec = vcheck::from_bytes::tree(&data, cfg);
  println!("{}", serde_json::to_string(&serde_json::json!({ "case": { "spec": spec } })).unwrap());
}
