use vcheck::build::build;
use vcheck::observe::{opts, stream};
use vcheck::spec::Spec;
fn main() {
  let path = std::env::args().nth(1).unwrap();
  let v: serde_json::Value = serde_json::from_str(&std::fs::read_to_string(path).unwrap()).unwrap();
  let mut c = v["case"].clone();
  for k in ["Tree", "spec"] { if c.get(k).is_some() { c = c[k].clone(); } }
  let spec: Spec = serde_json::from_value(c).unwrap();
  fn walk(s: &Spec, d: usize) {
    let st = std::panic::catch_unwind(|| stream(&*build(s), &opts(true, false)));
    println!("{}{:?}", " ".repeat(d * 2), match s { Spec::Concat{..} => "Concat".to_string(), Spec::Replace{repls,..} => format!("Replace {:?}", repls), Spec::Cached(_) => "Cached".into(), Spec::Boxed(_) => "Boxed".into(), o => format!("{o:?}") });
    match st { Ok(st) => { for ch in &st.chunks { println!("{}  chunk {:?} at {}:{} {:?}", " ".repeat(d*2), ch.text, ch.line, ch.col, ch.orig); } println!("{}  end {:?}", " ".repeat(d*2), st.info); } Err(_) => println!("{}  PANIC", " ".repeat(d*2)) }
    for c in s.children() { walk(c, d + 1); }
  }
  walk(&spec, 0);
}
