#![no_main]
// bytes -> C14 case -> the C14 check (same oracle as the generated legs)
use libfuzzer_sys::fuzz_target;
use vcheck::props::c14::{case_from_bytes, C14};
use vcheck::runner::Prop;

fuzz_target!(|data: &[u8]| {
  vcheck::fuzzrt::init();
  vcheck::fuzzrt::verdict("pair_c14", C14.check(&case_from_bytes(data)));
});
