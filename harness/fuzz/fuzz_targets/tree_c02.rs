#![no_main]
// bytes -> tree under GenCfg::positional() -> the C02 check (same oracle as the generated legs)
use libfuzzer_sys::fuzz_target;
use vcheck::gen::GenCfg;
use vcheck::props::c02::C02;
use vcheck::props::common::TreeCase;
use vcheck::runner::Prop;

fuzz_target!(|data: &[u8]| {
  vcheck::fuzzrt::init();
  let spec = vcheck::from_bytes::tree(data, GenCfg::positional());
  vcheck::fuzzrt::verdict("tree_c02", C02.check(&TreeCase { spec }));
});
