#![no_main]
// bytes -> C13 case -> the C13 check (same oracle as the generated legs)
use libfuzzer_sys::fuzz_target;
use vcheck::props::c13::{case_from_bytes, C13};
use vcheck::runner::Prop;

fuzz_target!(|data: &[u8]| {
  vcheck::fuzzrt::init();
  vcheck::fuzzrt::verdict("triple_c13", C13.check(&case_from_bytes(data)));
});
