#![no_main]
// bytes -> C10 case -> the C10 check (same oracle as the generated legs)
use libfuzzer_sys::fuzz_target;
use vcheck::props::c10::{case_from_bytes, C10};
use vcheck::runner::Prop;

fuzz_target!(|data: &[u8]| {
  vcheck::fuzzrt::init();
  vcheck::fuzzrt::verdict("hist_c10", C10.check(&case_from_bytes(data)));
});
