#![no_main]
// bytes -> C05 case -> the C05 check (same oracle as the generated legs)
use libfuzzer_sys::fuzz_target;
use vcheck::props::c05::{case_from_bytes, C05};
use vcheck::runner::Prop;

fuzz_target!(|data: &[u8]| {
  vcheck::fuzzrt::init();
  vcheck::fuzzrt::verdict("hist_c05", C05.check(&case_from_bytes(data)));
});
