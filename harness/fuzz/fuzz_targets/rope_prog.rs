#![no_main]
// bytes -> pair of rope construction programs -> flat String model (C16, C19)
use libfuzzer_sys::fuzz_target;
use vcheck::from_bytes::{prog, Cur};
use vcheck::props::c16::{Case, C16};
use vcheck::runner::Prop;

fuzz_target!(|data: &[u8]| {
  vcheck::fuzzrt::init();
  let mut c = Cur::new(data);
  let p = prog(&mut c, 4);
  let q = prog(&mut c, 3);
  vcheck::fuzzrt::verdict("rope_prog", C16.check(&Case { p, q }));
});
