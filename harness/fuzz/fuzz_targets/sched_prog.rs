#![no_main]
// bytes -> (concurrent program, schedule) -> one execution under the cooperative scheduler,
// with AddressSanitizer watching the borrowed data the streaming threads keep (C18, C19)
use libfuzzer_sys::fuzz_target;
use vcheck::props::c18::{Case, Mode, C18};
use vcheck::runner::Prop;

fuzz_target!(|data: &[u8]| {
  vcheck::fuzzrt::init();
  let (program, schedule) = vcheck::from_bytes::program(data);
  vcheck::fuzzrt::verdict("sched_prog", C18.check(&Case { program, mode: Mode::Schedule(schedule) }));
});
