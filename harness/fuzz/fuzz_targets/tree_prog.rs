#![no_main]
// bytes -> wild source tree -> totality (C17 leg c), reassembly (C01), borrowed-data retention under ASan (C19)
use libfuzzer_sys::fuzz_target;
use vcheck::gen::GenCfg;
use vcheck::props::c01::C01;
use vcheck::props::c17::{Case, C17};
use vcheck::props::common::TreeCase;
use vcheck::runner::Prop;

fuzz_target!(|data: &[u8]| {
  vcheck::fuzzrt::init();
  let spec = vcheck::from_bytes::tree(data, GenCfg::wild());
  vcheck::fuzzrt::verdict("tree_prog", C17.check(&Case::Tree(spec.clone())));
  vcheck::fuzzrt::verdict("tree_prog", C01.check(&TreeCase { spec }));
});
