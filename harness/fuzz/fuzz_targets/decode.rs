#![no_main]
// arbitrary bytes -> decode_mappings / decoded_mappings (C17 leg a, C19)
use libfuzzer_sys::fuzz_target;
use vcheck::props::c17::{Case, C17};
use vcheck::runner::Prop;

fuzz_target!(|data: &[u8]| {
  vcheck::fuzzrt::init();
  let s = String::from_utf8_lossy(data).to_string();
  vcheck::fuzzrt::verdict("decode", C17.check(&Case::Mappings(s)));
});
