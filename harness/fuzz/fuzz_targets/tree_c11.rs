#![no_main]
// bytes -> tree under GenCfg::positional() -> the C11 check (same oracle as the generated legs)
use libfuzzer_sys::fuzz_target;
use vcheck::gen::GenCfg;
use vcheck::props::c11::C11;
use vcheck::props::common::TreeCase;
use vcheck::runner::Prop;

fuzz_target!(|data: &[u8]| {
  vcheck::fuzzrt::init();
  let spec = vcheck::from_bytes::tree(data, GenCfg::positional());
  vcheck::fuzzrt::verdict("tree_c11", C11.check(&TreeCase { spec }));
});
