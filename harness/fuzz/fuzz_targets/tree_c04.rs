#![no_main]
// bytes -> tree under GenCfg::provenance() -> the C04 check (same oracle as the generated legs)
use libfuzzer_sys::fuzz_target;
use vcheck::gen::GenCfg;
use vcheck::props::c04::C04;
use vcheck::props::common::TreeCase;
use vcheck::runner::Prop;

fuzz_target!(|data: &[u8]| {
  vcheck::fuzzrt::init();
  let spec = vcheck::from_bytes::tree(data, GenCfg::provenance());
  vcheck::fuzzrt::verdict("tree_c04", C04.check(&TreeCase { spec }));
});
