#![no_main]
// bytes -> sorted mapping list -> codec round trip against the independent implementation (C12)
use libfuzzer_sys::fuzz_target;
use vcheck::from_bytes::{segs, Cur};
use vcheck::props::c12::{Case, C12};
use vcheck::runner::Prop;

fuzz_target!(|data: &[u8]| {
  vcheck::fuzzrt::init();
  let mut c = Cur::new(data);
  let x = segs(&mut c);
  vcheck::fuzzrt::verdict("codec", C12.check(&Case::Seq(x)));
});
