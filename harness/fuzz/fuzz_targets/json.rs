#![no_main]
// arbitrary bytes -> from_slice / from_reader / from_json (C17 leg b, C15)
use libfuzzer_sys::fuzz_target;
use vcheck::props::c17::{Case, C17};
use vcheck::runner::Prop;

fuzz_target!(|data: &[u8]| {
  vcheck::fuzzrt::init();
  vcheck::fuzzrt::verdict("json", C17.check(&Case::Json(data.to_vec())));
  // accepted documents must also survive a round trip (C15)
  if let Ok(m) = rspack_sources::SourceMap::from_slice(data) {
    let j = m.clone().to_json().unwrap_or_else(|e| vcheck::fuzzrt::fail("json", &format!("to_json of an accepted document failed: {e}")));
    match rspack_sources::SourceMap::from_json(&j) {
      Ok(back) => {
        let all_empty = m.sources_content().iter().all(|s| s.is_empty());
        let same = back.mappings() == m.mappings()
          && back.sources() == m.sources()
          && back.names() == m.names()
          && back.file() == m.file()
          && back.source_root() == m.source_root()
          && back.get_debug_id() == m.get_debug_id()
          && (back.sources_content() == m.sources_content() || (all_empty && back.sources_content().is_empty()));
        if !same {
          vcheck::fuzzrt::fail("json", &format!("round trip of an accepted document changed it: {j}"));
        }
        if serde_json_ok(&j).is_err() {
          vcheck::fuzzrt::fail("json", &format!("to_json output is not valid JSON for an independent parser: {j}"));
        }
      }
      Err(e) => vcheck::fuzzrt::fail("json", &format!("to_json output {j} is rejected by from_json: {e}")),
    }
  }
});

fn serde_json_ok(j: &str) -> Result<(), ()> {
  vcheck::props::c15::independent_parse_ok(j)
}
